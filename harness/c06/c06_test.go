// C06 — seeded evaluation is reproducible and resumable.
//
// A case is a history of programs run on one seeded context plus interference plans:
// activity on other contexts and on the process-wide generators, placed before the
// context exists, between its runs and (through the work-meter yield hook) between two
// instructions or two dice of one run.  Oracles:
//
//	replay   the history under interference == the same history on a fresh, equally seeded
//	         context left alone: value, process text, variables, error, generator state
//	noleak   around every undisturbed run the package-level generator of the library, the
//	         global source of golang.org/x/exp/rand and the global source of math/rand are
//	         untouched; a history without randomness constructs leaves GetCurSeed unchanged
//	resume   the state captured with GetCurSeed after step j, installed as Seed of a fresh
//	         context that is given the same variables, continues exactly like the original
package c06

import (
	"bytes"
	"encoding/hex"
	"encoding/json"
	"fmt"
	mrand "math/rand"
	"sort"
	"strings"
	"testing"

	ds "github.com/sealdice/dicescript"
	xrand "golang.org/x/exp/rand"
	"pgregory.net/rapid"

	"verif/harness/gen"
	"verif/harness/rt"
	"verif/harness/vmx"
)

// ---------------------------------------------------------------------------
// case

// Act is one piece of interference.
type Act struct {
	Kind string `json:"k"`             // gvm svm twin groll gfam xrand xseed mrand peek
	Src  string `json:"src,omitempty"` // program for gvm / svm / twin ("" = the subject's current step)
	Seed string `json:"seed,omitempty"`
	N    int    `json:"n,omitempty"`
}

// At places an act at the Tick-th metered point (instruction dispatch or die roll) of the subject's run.
type At struct {
	Tick int64 `json:"t"`
	Act  Act   `json:"a"`
}

type StepPlan struct {
	Before []Act `json:"before,omitempty"`
	During []At  `json:"during,omitempty"`
}

type Plan struct {
	Pre   []Act      `json:"pre,omitempty"` // before the subject context is created
	Steps []StepPlan `json:"steps,omitempty"`
	// Reuse: the subject is a context object that already evaluated this program unseeded; it is then given
	// the seed bytes and initialised again ("whatever earlier unseeded evaluations did")
	Reuse string `json:"reuse,omitempty"`
	// ReuseSeed: when set, the earlier evaluation on the reused object was itself seeded (with these other
	// bytes), so the object already owns a generator when it is given the subject's seed and initialised again
	ReuseSeed string `json:"reuse_seed,omitempty"`
}

func (p Plan) empty() bool {
	if len(p.Pre) > 0 || p.Reuse != "" {
		return false
	}
	for _, s := range p.Steps {
		if len(s.Before) > 0 || len(s.During) > 0 {
			return false
		}
	}
	return true
}

type Step struct {
	Src   string   `json:"src"`
	API   string   `json:"api,omitempty"`   // "" Run | parse (Parse + RunAfterParsed) | parse2 (… evaluated twice) | expr (RunExpr) | exprLocal (RunExpr sharing variables)
	Kinds []string `json:"kinds,omitempty"` // randomness constructs and the paths they sit on (from the AST; part of failure signatures)
	// SetDefSide: the host changes Config.DefaultDiceSideExpr to this (non-empty) text before the step, as it does when
	// a group switches game system; the setting in force decides, whatever the context evaluated before
	SetDefSide string `json:"setDefSide,omitempty"`
}

type Case struct {
	Cfg      vmx.Cfg `json:"cfg"`
	Steps    []Step  `json:"steps"`
	PlanA    Plan    `json:"planA"`
	PlanB    Plan    `json:"planB,omitempty"` // optional second interfered replay
	Cuts     []int   `json:"cuts,omitempty"`  // resume after these step indices
	NoRandom bool    `json:"noRandom,omitempty"`
	// MustDraw: every step is known to roll at least one die in random mode (enumerated table only)
	MustDraw bool `json:"mustDraw,omitempty"`
	// Host: an expression the host application exposes to scripts in two ways: the global name 全局值 is a
	// computed value with this expression (GlobalValueLoadFunc), and the native function 宿主掷() evaluates it
	// with RunExpr on the context it is called from
	Host string `json:"host,omitempty"`
}

const meterCeiling = 3_000_000

// ---------------------------------------------------------------------------
// interference

type world struct {
	c       Case
	subject *ds.Context
	curSrc  string
	ran     int // acts executed
	global  int // acts that drew from a process-wide generator
	inside  int // acts executed inside a run of the subject (between two instructions or dice)
}

func (w *world) runVM(vm *ds.Context, src string) {
	defer func() { _ = recover() }()
	_ = vm.Run(src)
	_ = vm.GetDetailText()
}

func (w *world) do(a Act) {
	w.ran++
	src := a.Src
	if src == "" {
		src = w.curSrc
	}
	if src == "" {
		src = "2d6+d20"
	}
	switch a.Kind {
	case "gvm": // an unseeded context: draws from the library's package-level generator
		cfg := w.c.Cfg
		cfg.SeedHex = ""
		if cfg.Mode != "" && a.N%2 == 0 {
			cfg.Mode = ""
		}
		w.runVM(cfg.NewVM(), src)
		w.global++
	case "svm": // another seeded context
		cfg := w.c.Cfg
		cfg.SeedHex = a.Seed
		w.runVM(cfg.NewVM(), src)
	case "twin": // a context with the subject's own seed bytes running the subject's program
		cfg := w.c.Cfg
		w.runVM(cfg.NewVM(), src)
	case "groll":
		for i := 0; i < 1+a.N%7; i++ {
			_ = ds.Roll(nil, ds.IntType(2+a.N%19), 0)
		}
		w.global++
	case "gfam":
		func() {
			defer func() { _ = recover() }()
			switch a.N % 5 {
			case 0:
				_, _ = ds.RollCommon(nil, 3, 6, nil, nil, 0, 0, 0, 0)
			case 1:
				_, _ = ds.RollCoC(nil, a.N%2 == 0, 2, 0)
			case 2:
				_, _ = ds.RollFate(nil, 0)
			case 3:
				_, _, _, _ = ds.RollWoD(nil, 8, 5, 10, 8, true, 0)
			case 4:
				_, _, _, _ = ds.RollDoubleCross(nil, 8, 5, 10, 0)
			}
		}()
		w.global++
	case "xrand":
		for i := 0; i < 1+a.N%5; i++ {
			_ = xrand.Uint64()
		}
		w.global++
	case "xseed":
		xrand.Seed(uint64(a.N))
		w.global++
	case "mrand":
		for i := 0; i < 1+a.N%5; i++ {
			_ = mrand.Uint64()
		}
		w.global++
	case "peek": // observers on the subject itself must not disturb it
		if w.subject != nil {
			_, _ = w.subject.GetCurSeed()
		}
	}
}

// injector runs the During acts of one step from inside the subject's run.
type injector struct {
	w    *world
	at   map[int64][]Act
	n    int64
	busy bool
}

func (in *injector) yield() {
	if in.busy {
		return // ticks of the interfering contexts themselves
	}
	in.n++
	acts, ok := in.at[in.n]
	if !ok {
		return
	}
	in.busy = true
	defer func() { in.busy = false }()
	for _, a := range acts {
		in.w.do(a)
		in.w.inside++
	}
}

// ---------------------------------------------------------------------------
// running a history

type StepOut struct {
	Err      string `json:"err,omitempty"`
	Panic    string `json:"panic,omitempty"`
	Ret      string `json:"ret,omitempty"`
	Matched  string `json:"matched,omitempty"`
	Rest     string `json:"rest,omitempty"`
	Detail   string `json:"detail,omitempty"`
	Attrs    string `json:"attrs,omitempty"`
	St       string `json:"st,omitempty"`
	Seed     string `json:"seed"`
	ceiling  bool
	leak     *leakObs
	retMoved string // the result changed between right after the evaluation and after another VM ran (both forms)
}

type leakObs struct{ sig, observed, expected string }

func fields(o StepOut) [][2]string {
	return [][2]string{{"panic", o.Panic}, {"err", o.Err}, {"ret", o.Ret}, {"matched", o.Matched}, {"rest", o.Rest},
		{"detail", o.Detail}, {"st", o.St}, {"attrs", o.Attrs}, {"seed", o.Seed}}
}

// diff names the first field in which two outcomes differ.  Texts that print a dict (process text, error text,
// st callback detail) render it in Go map order, which no run can reproduce; two such texts that are byte
// permutations of each other are taken to be the same text (counted in *permuted).
func diff(a, b StepOut, permuted *int) (field, av, bv string) {
	fa, fb := fields(a), fields(b)
	for i := range fa {
		if fa[i][1] != fb[i][1] {
			switch fa[i][0] {
			case "detail", "err", "st":
				if sameModuloDictOrder(fa[i][1], fb[i][1]) {
					*permuted++
					continue
				}
			}
			return fa[i][0], fa[i][1], fb[i][1]
		}
	}
	return "", "", ""
}

func sameModuloDictOrder(a, b string) bool {
	// since fix 6269628 a dict prints and lists its entries in key order: nothing is tolerated any more
	if true {
		return false
	}
	if len(a) != len(b) || !strings.Contains(a, "{'") {
		return false
	}
	var ca, cb [256]int
	for i := 0; i < len(a); i++ {
		ca[a[i]]++
		cb[b[i]]++
	}
	return ca == cb
}

type stEvent struct{ Type, Name, Val, Extra, Op, Detail string }

func hostHooks(vm *ds.Context, expr string) {
	if expr == "" {
		return
	}
	computed := ds.NewComputedVal(expr)
	native := ds.NewNativeFunctionVal(&ds.NativeFunctionData{Name: "宿主掷", Params: []string{},
		NativeFunc: func(ctx *ds.Context, this *ds.VMValue, params []*ds.VMValue) *ds.VMValue {
			v, err := ctx.RunExpr(expr, false)
			if err != nil {
				ctx.Error = err
				return nil
			}
			return v
		}})
	vm.GlobalValueLoadFunc = func(name string) *ds.VMValue {
		switch name {
		case "全局值":
			return computed
		case "宿主掷":
			return native
		}
		return nil
	}
}

func newSubject(cfg vmx.Cfg, log *[]stEvent, reuse string, host string, reuseSeed ...string) *ds.Context {
	vm := cfg.NewVM()
	if reuse != "" {
		u := cfg
		u.SeedHex = ""
		if len(reuseSeed) > 0 && len(reuseSeed[0]) == 32 {
			u.SeedHex = reuseSeed[0]
		}
		vm = u.NewVM()
		func() {
			defer func() { _ = recover() }()
			ds.VerifMeterReset(meterCeiling)
			defer ds.VerifMeterReset(0)
			_ = vm.Run(reuse)
		}()
		vm.Seed, _ = hex.DecodeString(cfg.SeedHex)
		vm.Init()
		cfg.Apply(vm)
	}
	vm.Config.CallbackSt = func(_type string, name string, val *ds.VMValue, extra *ds.VMValue, op string, detail string) {
		ev := stEvent{Type: _type, Name: name, Val: vmx.Repr(val), Op: op, Detail: detail}
		if extra != nil {
			ev.Extra = vmx.Repr(extra)
		}
		*log = append(*log, ev)
	}
	hostHooks(vm, host)
	return vm
}

// runStep executes one step of the history on vm.  probe != 0 brackets the run with the
// no-leak probes (only meaningful when no interference is injected).
func runStep(vm *ds.Context, st Step, log *[]stEvent, w *world, sp StepPlan, probe uint64) StepOut {
	var o StepOut
	*log = (*log)[:0]
	if st.SetDefSide != "" {
		vm.Config.DefaultDiceSideExpr = st.SetDefSide
	}
	if w != nil {
		w.curSrc = st.Src
		for _, a := range sp.Before {
			w.do(a)
		}
	}
	var g0 string
	if probe != 0 {
		g0 = leakArm(probe)
	}
	ds.VerifMeterReset(meterCeiling)
	if w != nil && len(sp.During) > 0 {
		in := &injector{w: w, at: map[int64][]Act{}}
		for _, at := range sp.During {
			in.at[at.Tick] = append(in.at[at.Tick], at.Act)
		}
		ds.VerifSetYield(in.yield)
	}
	pi := rt.Guard(func() {
		var err error
		var val *ds.VMValue
		switch st.API {
		case "parse":
			if err = vm.Parse(st.Src); err == nil {
				err = vm.RunAfterParsed()
			}
		case "parse2": // the compiled program evaluated twice: the second evaluation continues the sequence
			if err = vm.Parse(st.Src); err == nil {
				if err = vm.RunAfterParsed(); err == nil {
					err = vm.RunAfterParsed()
				}
			}
		case "expr", "exprLocal":
			// RunExpr continues the error and budget state of the previous Run (it is meant to be called while a
			// command is being processed): it hands back a stale ctx.Error when its own expression evaluates fine
			// and starts from the NumOpCount the last Run ended with.  That plumbing is not this property's
			// subject, so the host starts it from a clean slate.
			vm.Error = nil
			vm.NumOpCount = 0
			val, err = vm.RunExpr(st.Src, st.API == "exprLocal")
		default:
			err = vm.Run(st.Src)
		}
		if err != nil {
			o.Err = err.Error()
			return
		}
		if st.API == "expr" || st.API == "exprLocal" {
			o.Ret = vmx.Repr(val)
			return
		}
		// "whatever other VMs did": an unrelated VM of the host (seeded, so that it stays away from the process-wide
		// generator) evaluates a command of its own before the result of this one is read
		atOnce := vmx.Repr(vm.Ret)
		neighbour := &ds.Context{Seed: []byte("neighbour-seed16")}
		neighbour.Init()
		_ = neighbour.Run("'other' + '0' + 3d20kh2")
		o.Ret = vmx.Repr(vm.Ret)
		if o.Ret != atOnce {
			o.retMoved = fmt.Sprintf("%s right after the evaluation, %s after another VM evaluated a command", clip(atOnce, 200), clip(o.Ret, 200))
		}
		o.Matched = vm.Matched
		o.Rest = vm.RestInput
		o.Detail = vm.GetDetailText()
	})
	ds.VerifSetYield(nil)
	ds.VerifMeterReset(0)
	if probe != 0 {
		o.leak = leakCheck(probe, g0)
	}
	if pi != nil {
		if _, hit := pi.Raw.(ds.VerifCeilingHit); hit {
			o.ceiling = true
		}
		o.Panic = pi.Sig()
	}
	o.Attrs = vmx.AttrsRepr(vm)
	o.Seed = vmx.SeedHex(vm)
	if len(*log) > 0 {
		b, _ := json.Marshal(*log)
		o.St = string(b)
	}
	return o
}

type runRes struct {
	// raw: what GetCurSeed returned after each step, kept as the host keeps it, with its hex form at that moment
	raw    [][]byte
	rawHex []string
	outs   []StepOut
	vm     *ds.Context
	ran    int
	global int
	inside int
	seed0  string // generator state right after Init
}

// runHistory runs steps[from:to] on vm (created from cfg when nil).
func runHistory(c Case, plan Plan, probe bool, upto int) runRes {
	w := &world{c: c}
	for _, a := range plan.Pre {
		w.do(a)
	}
	var log []stEvent
	vm := newSubject(c.Cfg, &log, plan.Reuse, c.Host, plan.ReuseSeed)
	w.subject = vm
	if plan.Reuse != "" {
		w.ran++
		w.global++
	}
	res := runRes{vm: vm, seed0: vmx.SeedHex(vm)}
	for i := 0; i < upto && i < len(c.Steps); i++ {
		var sp StepPlan
		if i < len(plan.Steps) {
			sp = plan.Steps[i]
		}
		k := uint64(0)
		if probe {
			k = 0x9e3779b97f4a7c15 ^ uint64(i+1)
		}
		res.outs = append(res.outs, runStep(vm, c.Steps[i], &log, w, sp, k))
		if b, err := vm.GetCurSeed(); err == nil {
			res.raw = append(res.raw, b)
			res.rawHex = append(res.rawHex, hex.EncodeToString(b))
		}
	}
	res.ran, res.global, res.inside = w.ran, w.global, w.inside
	return res
}

// ---------------------------------------------------------------------------
// no-leak probes

var xrandProbeOK, mrandProbeOK = selfTestProbes()

// selfTestProbes confirms that the probes can see a draw at all with this toolchain
// (math/rand.Seed may become a no-op in a later Go release).
func selfTestProbes() (bool, bool) {
	xrand.Seed(12345)
	x := xrand.Uint64()
	xr := xrand.New(xrand.NewSource(12345))
	xok := x == xr.Uint64() && xrand.Uint64() == xr.Uint64()
	mrand.Seed(12345) //nolint:staticcheck
	m := mrand.Uint64()
	mr := mrand.New(mrand.NewSource(12345))
	mok := m == mr.Uint64() && mrand.Uint64() == mr.Uint64()
	return xok, mok
}

func globalState() string {
	b, err := ds.NewVM().GetCurSeed() // an unseeded context reports the package-level generator
	if err != nil {
		return "err:" + err.Error()
	}
	return hex.EncodeToString(b)
}

func leakArm(k uint64) string {
	xrand.Seed(k)
	mrand.Seed(int64(k)) //nolint:staticcheck
	return globalState()
}

func leakCheck(k uint64, g0 string) *leakObs {
	if g1 := globalState(); g1 != g0 {
		return &leakObs{"noleak:package-generator", "package-level generator moved from " + g0 + " to " + g1 + " during a seeded run", "untouched"}
	}
	if xrandProbeOK {
		got, want := xrand.Uint64(), xrand.New(xrand.NewSource(k)).Uint64()
		if got != want {
			return &leakObs{"noleak:x-exp-rand", fmt.Sprintf("golang.org/x/exp/rand global source was consumed during a seeded run (next value %d)", got), fmt.Sprintf("first value after Seed: %d", want)}
		}
	}
	if mrandProbeOK {
		got, want := mrand.Uint64(), mrand.New(mrand.NewSource(int64(k))).Uint64()
		if got != want {
			return &leakObs{"noleak:math-rand", fmt.Sprintf("math/rand global source was consumed during a seeded run (next value %d)", got), fmt.Sprintf("first value after Seed: %d", want)}
		}
	}
	return nil
}

// drawsBetween counts how many values the PCG source yields between two marshalled states (-1: not reached).
func drawsBetween(fromHex, toHex string, max int) int {
	from, err1 := hex.DecodeString(fromHex)
	to, err2 := hex.DecodeString(toHex)
	if err1 != nil || err2 != nil || len(from) != 16 || len(to) != 16 {
		return -1
	}
	var p xrand.PCGSource
	if p.UnmarshalBinary(from) != nil {
		return -1
	}
	for i := 0; i <= max; i++ {
		b, _ := p.MarshalBinary()
		if bytes.Equal(b, to) {
			return i
		}
		p.Uint64()
	}
	return -1
}

// ---------------------------------------------------------------------------
// oracle

func kindsSig(st Step) string {
	if len(st.Kinds) == 0 {
		return "-"
	}
	k := append([]string(nil), st.Kinds...)
	sort.Strings(k)
	if len(k) > 4 {
		k = append(k[:4], "…")
	}
	return strings.Join(k, ",")
}

func clip(s string, n int) string {
	if len(s) > n {
		return s[:n] + "…"
	}
	return s
}

type verdict struct {
	f         *rt.Failure
	discard   string
	clean     runRes
	actsRan   int
	globRan   int
	inside    int
	draws     int
	rolled    bool
	resumed   int
	stepErrs  int
	farStates int
}

func compareRuns(c Case, s *rt.Section, oracle, what string, got, want []StepOut, offset int) *rt.Failure {
	for i := range want {
		if i >= len(got) {
			return s.NewFailure(oracle, oracle+":short", c, fmt.Sprintf("%s ran %d steps", what, len(got)), fmt.Sprintf("%d steps", len(want)))
		}
		permuted := 0
		field, gv, wv := diff(got[i], want[i], &permuted)
		if permuted > 0 && s != nil {
			s.ClassN("text-differs-only-in-dict-print-order", int64(permuted))
		}
		if field != "" {
			st := c.Steps[offset+i]
			return s.NewFailure(oracle, oracle+":"+field+"/"+kindsSig(st), c,
				fmt.Sprintf("%s, step %d %s(%q): %s = %s", what, offset+i, apiName(st.API), clip(st.Src, 300), field, clip(gv, 600)),
				fmt.Sprintf("%s = %s (same seed %s, configuration and variables, left alone)", field, clip(wv, 600), c.Cfg.SeedHex))
		}
	}
	return nil
}

func apiName(a string) string {
	if a == "" {
		return "Run"
	}
	return a
}

func checkCase(c Case, s *rt.Section) *rt.Failure {
	v := judge(c, s)
	if v.discard != "" {
		s.Discard(v.discard)
		return nil
	}
	return v.f
}

func judge(c Case, s *rt.Section) (v verdict) {
	if len(c.Steps) == 0 || len(c.Cfg.SeedHex) != 32 {
		v.discard = "malformed-case"
		return
	}
	n := len(c.Steps)
	// B: the undisturbed reference run, bracketed by the no-leak probes
	clean := runHistory(c, Plan{}, true, n)
	v.clean = clean
	for _, o := range clean.outs {
		if o.ceiling {
			v.discard = "work-ceiling"
			return
		}
		if o.Panic != "" {
			v.discard = "panic-in-reference-run(C01) " + o.Panic
			return
		}
		if o.Err != "" {
			v.stepErrs++
		}
	}
	if clean.seed0 != c.Cfg.SeedHex {
		v.f = s.NewFailure("seed-roundtrip", "seed:init-roundtrip", c, "GetCurSeed right after Init = "+clean.seed0, "the seed bytes "+c.Cfg.SeedHex)
		return
	}
	// a capture is the host's: later evaluations and later captures leave its bytes alone, and so they do the seed
	// bytes the host handed over
	for i, b := range clean.raw {
		if got := hex.EncodeToString(b); got != clean.rawHex[i] {
			v.f = s.NewFailure("capture-stable", "seed:capture-overwritten", c, fmt.Sprintf("the state captured with GetCurSeed after step %d read %s when it was taken and reads %s after the later steps", i, clean.rawHex[i], got), "a capture does not change once taken")
			return
		}
	}
	if clean.vm != nil && clean.vm.Seed != nil {
		if got := hex.EncodeToString(clean.vm.Seed); got != c.Cfg.SeedHex {
			v.f = s.NewFailure("capture-stable", "seed:host-seed-bytes-modified", c, "Context.Seed reads "+got+" after the run", "the seed bytes the host set: "+c.Cfg.SeedHex)
			return
		}
	}
	for i, o := range clean.outs {
		if o.retMoved != "" {
			v.f = s.NewFailure("same-value", "ret:changed-by-another-vm", c, fmt.Sprintf("step %d %s(%q): result read as %s", i, apiName(c.Steps[i].API), clip(c.Steps[i].Src, 300), o.retMoved),
				"the value does not depend on what other VMs do")
			return
		}
		if o.leak != nil {
			v.f = s.NewFailure("noleak", o.leak.sig+"/"+kindsSig(c.Steps[i]), c,
				fmt.Sprintf("step %d %s(%q): %s", i, apiName(c.Steps[i].API), clip(c.Steps[i].Src, 300), o.leak.observed), o.leak.expected)
			return
		}
	}
	// generator accounting of the reference run
	prev := clean.seed0
	v.draws = 0
	for i, o := range clean.outs {
		moved := o.Seed != prev
		if moved {
			v.rolled = true
		}
		if c.NoRandom && moved {
			v.f = s.NewFailure("noleak", "norandom:seed-moved", c,
				fmt.Sprintf("step %d %q has no dice and no random method, yet GetCurSeed moved %s -> %s", i, clip(c.Steps[i].Src, 300), prev, o.Seed), "unchanged generator state")
			return
		}
		if c.MustDraw && c.Cfg.Mode == "" && !moved && o.Err == "" && strings.TrimSpace(o.Rest) == "" {
			v.f = s.NewFailure("own-generator", "mustdraw:seed-unmoved/"+kindsSig(c.Steps[i]), c,
				fmt.Sprintf("step %d %q rolled (value %s, text %q) but the context's generator state did not move", i, clip(c.Steps[i].Src, 300), o.Ret, clip(o.Detail, 200)),
				"randomness drawn from the context's generator")
			return
		}
		// statistics only: how many values were drawn (a state that is not reached within the bound is counted, not judged)
		if d := drawsBetween(prev, o.Seed, 40_000); d >= 0 {
			v.draws += d
		} else {
			v.farStates++
		}
		prev = o.Seed
	}
	// A: the same history under interference
	a := runHistory(c, c.PlanA, false, n)
	v.actsRan, v.globRan, v.inside = a.ran, a.global, a.inside
	for _, o := range a.outs {
		if o.ceiling {
			v.discard = "work-ceiling"
			return
		}
	}
	if v.f = compareRuns(c, s, "replay", "under interference plan A", a.outs, clean.outs, 0); v.f != nil {
		return
	}
	if !c.PlanB.empty() {
		b := runHistory(c, c.PlanB, false, n)
		v.actsRan += b.ran
		v.globRan += b.global
		for _, o := range b.outs {
			if o.ceiling {
				v.discard = "work-ceiling"
				return
			}
		}
		if v.f = compareRuns(c, s, "replay", "under interference plan B", b.outs, clean.outs, 0); v.f != nil {
			return
		}
	}
	// resume
	for _, cut := range c.Cuts {
		if cut < 0 || cut >= n-1 {
			continue
		}
		twin := runHistory(c, Plan{}, false, cut+1)
		if v.f = compareRuns(c, s, "replay", "second undisturbed run", twin.outs, clean.outs[:cut+1], 0); v.f != nil {
			return
		}
		cfg := c.Cfg
		cfg.SeedHex = clean.outs[cut].Seed // what a host stored with GetCurSeed after step cut
		for i := 0; i <= cut; i++ {
			if c.Steps[i].SetDefSide != "" {
				cfg.DefSide = c.Steps[i].SetDefSide // the fresh context gets the configuration in force
			}
		}
		var log []stEvent
		r := newSubject(cfg, &log, "", c.Host)
		if got := vmx.SeedHex(r); got != cfg.SeedHex {
			v.f = s.NewFailure("resume", "seed:init-roundtrip", c, "GetCurSeed right after Init = "+got, "the installed state "+cfg.SeedHex)
			return
		}
		twin.vm.Attrs.Range(func(k string, val *ds.VMValue) bool { // the variables the host kept
			r.Attrs.Store(k, val)
			return true
		})
		w := &world{c: c, subject: r}
		var outs []StepOut
		for i := cut + 1; i < n; i++ {
			var sp StepPlan
			if i < len(c.PlanA.Steps) {
				sp = c.PlanA.Steps[i]
			}
			o := runStep(r, c.Steps[i], &log, w, sp, 0)
			if o.ceiling {
				v.discard = "work-ceiling"
				return
			}
			outs = append(outs, o)
		}
		v.resumed++
		if v.f = compareRuns(c, s, "resume", fmt.Sprintf("fresh context seeded with the state captured after step %d", cut), outs, clean.outs[cut+1:], cut+1); v.f != nil {
			return
		}
	}
	return
}

// ---------------------------------------------------------------------------
// generation

var interferencePrograms = []string{"2d6+d20", "d100", "10d10k3", "f+f", "b2+p", "6a5", "5c7", "[1,2,3,4,5,6].shuffle()", "[1..20].rand()", "d", "3d",
	"func g9() { 2d6 }; g9()+g9()", "&c9 = d8; c9+c9", "`{d6}{%d8%}`", ""}

func drawAct(t *rapid.T, during bool) Act {
	kinds := []string{"gvm", "gvm", "gvm", "svm", "twin", "twin", "groll", "groll", "gfam", "xrand", "xseed", "mrand", "peek"}
	a := Act{Kind: rapid.SampledFrom(kinds).Draw(t, "actKind"), N: rapid.IntRange(0, 40).Draw(t, "actN")}
	switch a.Kind {
	case "gvm", "svm", "twin":
		a.Src = rapid.SampledFrom(interferencePrograms).Draw(t, "actSrc")
	}
	if a.Kind == "svm" {
		a.Seed = hex.EncodeToString(rapid.SliceOfN(rapid.Byte(), 16, 16).Draw(t, "actSeed"))
	}
	_ = during
	return a
}

func drawPlan(t *rapid.T, nSteps int, dense bool) Plan {
	var p Plan
	for i := rapid.IntRange(0, 2).Draw(t, "nPre"); i > 0; i-- {
		p.Pre = append(p.Pre, drawAct(t, false))
	}
	if rapid.IntRange(0, 4).Draw(t, "reuse") == 0 {
		p.Reuse = rapid.SampledFrom(interferencePrograms[:len(interferencePrograms)-1]).Draw(t, "reuseSrc")
		if rapid.Bool().Draw(t, "reuseSeeded") {
			p.ReuseSeed = hex.EncodeToString(rapid.SliceOfN(rapid.Byte(), 16, 16).Draw(t, "reuseSeed"))
		}
	}
	for s := 0; s < nSteps; s++ {
		var sp StepPlan
		for i := rapid.IntRange(0, 2).Draw(t, "nBefore"); i > 0; i-- {
			sp.Before = append(sp.Before, drawAct(t, false))
		}
		lo := 0
		if dense {
			lo = 1
		}
		for i := rapid.IntRange(lo, 3).Draw(t, "nDuring"); i > 0; i-- {
			tick := int64(rapid.IntRange(1, 30).Draw(t, "tick"))
			if rapid.IntRange(0, 5).Draw(t, "tickFar") == 0 {
				tick = int64(rapid.IntRange(31, 400).Draw(t, "tickFarV"))
			}
			sp.During = append(sp.During, At{Tick: tick, Act: drawAct(t, true)})
		}
		p.Steps = append(p.Steps, sp)
	}
	return p
}

var defSidePool = []string{"6", "20", "d4+4", "2d3", "[4,6,8,10,12,20].rand()", "0", "'x'", "1", "f+3"}

// randKinds lists the randomness constructs of a program and the paths they sit on.
func randKinds(n *gen.Node) []string {
	seen := map[string]bool{}
	var walk func(m *gen.Node, path string)
	walk = func(m *gen.Node, path string) {
		if m == nil {
			return
		}
		k := ""
		switch m.K {
		case "dice":
			k = "xdy"
			if len(m.Kids) > 1 && m.Kids[1].IsNone() {
				k = "xd-default"
			}
		case "fate", "coc", "wod", "dc":
			k = m.K
		case "mcall":
			switch m.S {
			case "shuffle", "rand", "randSize":
				k = m.S
			}
		}
		if k != "" {
			seen[k] = true
			if path != "" {
				seen[k+"@"+path] = true
			}
		}
		sub := path
		switch m.K {
		case "func":
			sub = "func"
		case "setc":
			sub = "computed"
		case "hole":
			if path == "" {
				sub = "tmpl"
			}
		case "dice", "coc", "wod", "dc":
			if path == "" {
				sub = "operand"
			}
		}
		for _, kid := range m.Kids {
			walk(kid, sub)
		}
	}
	walk(n, "")
	var out []string
	for k := range seen {
		out = append(out, k)
	}
	sort.Strings(out)
	return out
}

func drawCase(t *rapid.T, s *rt.Section) Case {
	c := Case{}
	on := func(label string) bool { return rapid.IntRange(0, 3).Draw(t, label) != 0 }
	c.Cfg = vmx.Cfg{CoC: on("coc"), WoD: on("wod"), Fate: on("fate"), DC: on("dc"), OpLimit: 30000,
		IgnoreDiv0: rapid.IntRange(0, 3).Draw(t, "ignDiv0") == 0,
		Mode:       rapid.SampledFrom([]string{"", "", "", "", "", "", "min", "max"}).Draw(t, "mode"),
		NoNDice:    rapid.IntRange(0, 19).Draw(t, "noNDice") == 0,
		SeedHex:    hex.EncodeToString(rapid.SliceOfN(rapid.Byte(), 16, 16).Draw(t, "seed"))}
	// seeds a host may well use: all zero bytes (the zero value of a 16-byte array), all ones, a counter in the last byte
	if rapid.IntRange(0, 11).Draw(t, "plainSeed") == 0 {
		c.Cfg.SeedHex = rapid.SampledFrom([]string{"00000000000000000000000000000000", "ffffffffffffffffffffffffffffffff", "00000000000000000000000000000001",
			"01000000000000000000000000000000", "0000000000000000ffffffffffffffff"}).Draw(t, "plainSeedHex")
	}
	c.NoRandom = rapid.IntRange(0, 9).Draw(t, "noRandom") == 0

	o := gen.DefaultOpts()
	o.MaxStmts = 3
	o.MaxDepth = 3
	o.SingleKeyDicts = false // dicts of several keys: what a script sees of them (text, keys, values, items) must not depend on Go map order
	o.ThisAssign = false     // open finding of C02 (this.x = v is dropped)
	o.StrIndexOOB = false    // open finding of C02 (string index past the end)
	o.Avoid = s.Avoid
	o.Extra = rapid.IntRange(0, 2).Draw(t, "extra") == 0
	if rapid.IntRange(0, 5).Draw(t, "hostile") == 0 {
		o.Hostile = 0.08
	}
	if !c.NoRandom {
		o.Dice = true
		o.CoC, o.WoD, o.Fate, o.DC = c.Cfg.CoC, c.Cfg.WoD, c.Cfg.Fate, c.Cfg.DC
		o.RandMethods = true
		o.DefaultSides = !c.Cfg.NoNDice
		o.DiceBoost = rapid.SampledFrom([]float64{0.1, 0.2, 0.35}).Draw(t, "boost")
		if rapid.IntRange(0, 2).Draw(t, "defSide") != 0 {
			c.Cfg.DefSide = rapid.SampledFrom(defSidePool).Draw(t, "defSideExpr")
		}
	}
	env := &gen.Env{}
	g := gen.NewG(t, o, env)
	n := rapid.IntRange(1, 4).Draw(t, "nSteps")
	for i := 0; i < n; i++ {
		var st Step
		if !c.NoRandom && rapid.IntRange(0, 4).Draw(t, "fromTable") == 0 {
			var ops []operator
			for _, op := range operators {
				if op.Fam == "" || op.Fam == "fate" && c.Cfg.Fate || op.Fam == "coc" && c.Cfg.CoC || op.Fam == "wod" && c.Cfg.WoD || op.Fam == "dc" && c.Cfg.DC {
					ops = append(ops, op)
				}
			}
			op := rapid.SampledFrom(ops).Draw(t, "tableOp")
			pa := rapid.SampledFrom(paths).Draw(t, "tablePath")
			if pa.Name == "host-global-computed" && i > 0 && s.Avoid("host_computed_cold_cache") {
				// open finding C06-F01: the text of a host-supplied computed value differs between its first and its
				// later evaluations, which a resume cut placed before a later use exposes
				pa = pathByName("host-native-runexpr")
			}
			st = Step{Src: pa.wrap(op.Src), API: pa.API, Kinds: []string{"table", op.Name + "@" + pa.Name}}
			if pa.DefSide && !op.Arr {
				c.Cfg.DefSide = op.Src
			}
			if pa.Host {
				c.Host = op.Src
			}
		} else {
			p := g.Program()
			z := &gen.Noise{Vals: rapid.SliceOfN(rapid.IntRange(0, 1000), 0, 10).Draw(t, "noise")}
			st.Src, _ = gen.PrintNoisy(p, z)
			st.Kinds = randKinds(p)
			if c.NoRandom && len(st.Kinds) > 0 {
				c.NoRandom = false // cannot happen with the options above; keeps the oracle honest if it does
			}
		}
		switch rapid.IntRange(0, 11).Draw(t, "api") {
		case 0:
			st.API = "parse"
		case 3:
			st.API = "parse2"
		case 1:
			if !strings.HasPrefix(st.Src, "^st") {
				st.API = "expr"
			}
		case 2:
			if !strings.HasPrefix(st.Src, "^st") {
				st.API = "exprLocal"
			}
		}
		if i > 0 && c.Cfg.DefSide != "" && !c.NoRandom && rapid.IntRange(0, 3).Draw(t, "setDefSide") == 0 {
			st.SetDefSide = rapid.SampledFrom(defSidePool).Draw(t, "newDefSide")
		}
		c.Steps = append(c.Steps, st)
	}
	c.PlanA = drawPlan(t, n, true)
	if rapid.IntRange(0, 2).Draw(t, "planB") == 0 {
		c.PlanB = drawPlan(t, n, false)
	}
	if n >= 2 {
		c.Cuts = append(c.Cuts, rapid.IntRange(0, n-2).Draw(t, "cut"))
	}
	return c
}

// ---------------------------------------------------------------------------
// the enumerated table: every randomness operator on every path into a sub-VM

type operator struct {
	Name, Src string
	Fam       string // family flag needed
	Arr       bool   // array-valued
}

// defaultSided: the operator has no sides operand (Nd syntax), which the st command does not accept in a value.
func (o operator) defaultSided() bool { return strings.Contains(o.Name, "-default") }

var operators = []operator{
	{"d6", "d6", "", false}, {"2d6", "2d6", "", false}, {"XdYk", "3d6k2", "", false}, {"XdYq", "4d6q1", "", false},
	{"XdYkh", "2d20kh1", "", false}, {"XdYkl", "4d6kl2", "", false}, {"XdYdh", "4d6dh1", "", false}, {"XdYdl", "4d6dl1", "", false},
	{"adv", "d20优势", "", false}, {"dis", "d20劣势", "", false}, {"min", "3d6min2", "", false}, {"max", "3d6max4", "", false},
	{"upper", "2D10", "", false}, {"chain", "2d6d8", "", false},
	// sizes whose draw is rejected and repeated with noticeable probability (2^64 mod n is large): 3*2^61, 10^18, 2^62+1
	{"huge-3x2^61", "4d6917529027641081856", "", false}, {"huge-10^18", "6d1000000000000000000", "", false}, {"huge-2^62+1", "3d4611686018427387905k2", "", false}, {"operands", "(d4)d(d6)k(d2)", "", false},
	{"d-default", "d", "", false}, {"Xd-default", "2d", "", false}, {"Xdk-default", "3dk1", "", false}, {"d-adv-default", "d优势", "", false},
	{"fate", "f", "fate", false},
	{"coc-b", "b", "coc", false}, {"coc-bN", "b2", "coc", false}, {"coc-p", "p", "coc", false}, {"coc-pN", "p3", "coc", false},
	{"wod", "3a5", "wod", false}, {"wod-m", "5a6m8", "wod", false}, {"wod-k", "4a5k7", "wod", false}, {"wod-q", "4a5q3", "wod", false},
	{"dc", "3c8", "dc", false}, {"dc-m", "4c7m12", "dc", false},
	{"rand", "[1,2,3,4,5,6].rand()", "", false}, {"rand-range", "[1..8].rand()", "", false},
	{"shuffle", "[1,2,3,4,5,6].shuffle()", "", true}, {"randSize", "[1,2,3,4,5,6].randSize(3)", "", true},
	{"shuffle-rand", "[1,2,3,4,5,6].shuffle().rand()", "", false}, {"randSize-sum", "[1,2,3,4,5,6].randSize(3).sum()", "", false},
}

type pathT struct {
	Name, Tmpl string
	API        string
	DefSide    bool // the operator is the DefaultDiceSideExpr of the configuration; the program rolls default-sided dice
	Host       bool // the operator is the expression behind the host's computed global / native function
}

func (p pathT) wrap(op string) string { return strings.ReplaceAll(p.Tmpl, "@", op) }

var paths = []pathT{
	{"top", "@", "", false, false},
	{"arith", "1 + @ * 2", "", false, false},
	{"assign", "x = @; x", "", false, false},
	{"array", "[@, @]", "", false, false},
	{"dict", "{'k': @}", "", false, false},
	{"ternary", "1 ? @ : 0", "", false, false},
	{"coalesce", "null ?? @", "", false, false},
	{"call-arg", "toStr(@)", "", false, false},
	{"func", "func g1() { @ }; g1()", "", false, false},
	{"func-cached", "func g2(n) { return [n, @] }; [g2(1), g2(2)]", "", false, false},
	{"func-nested", "func g3() { @ }; func g4() { [g3(), g3()] }; g4()", "", false, false},
	{"computed", "&c1 = @; c1", "", false, false},
	{"computed-twice", "&c1 = @; [c1, c1]", "", false, false},
	{"computed-attr", "&c1 = [@, this.x ?? 0]; &c1.x = 1; c1", "", false, false},
	{"func-in-computed", "func g1() { @ }; &c2 = g1(); c2", "", false, false},
	{"computed-in-func", "&c3 = @; func g5() { c3 }; g5()", "", false, false},
	{"tmpl-hole", "`a{@}b`", "", false, false},
	{"tmpl-stmts", "`{% y = @; y %}`", "", false, false},
	{"while", "i = 0; r = []; while i < 3 { i = i + 1; r.push(@) }; r", "", false, false},
	{"if-body", "r = 0; if 1 { r = @ }; r", "", false, false},
	{"st", "^st力量=@", "", false, false},
	{"st-mod", "^st力量+@", "", false, false},
	{"st-two", "^st力量=@ 敏捷=@", "", false, false},
	{"host-global-computed", "[全局值, 全局值]", "", false, true},
	{"host-native-runexpr", "[宿主掷(), 宿主掷()]", "", false, true},
	{"host-native-in-func", "func g7() { 宿主掷() }; [g7(), g7()]", "", false, true},
	{"parse-api", "@", "parse", false, false},
	{"parse-twice-api", "@", "parse2", false, false},
	{"runexpr-api", "@", "expr", false, false},
	{"runexpr-local", "y = @", "exprLocal", false, false},
	{"default-side", "2d", "", true, false},
	{"default-side-func", "func g6() { d }; g6() + g6()", "", true, false},
}

func pathByName(name string) pathT {
	for _, p := range paths {
		if p.Name == name {
			return p
		}
	}
	return paths[0]
}

var enumSeeds = []string{"000102030405060708090a0b0c0d0e0f"}

func enumPlan() Plan {
	acts := []Act{{Kind: "gvm"}, {Kind: "groll", N: 4}, {Kind: "twin"}, {Kind: "gfam", N: 3}, {Kind: "xrand", N: 2}, {Kind: "mrand", N: 1}, {Kind: "gvm", Src: "d100"}, {Kind: "svm", Seed: "0f0e0d0c0b0a09080706050403020100", Src: "3d6"}}
	p := Plan{Pre: []Act{{Kind: "gvm", Src: "2d6"}, {Kind: "xseed", N: 7}}}
	for s := 0; s < 2; s++ {
		sp := StepPlan{Before: []Act{{Kind: "groll", N: 2}, {Kind: "peek"}}}
		for i, tick := range []int64{1, 2, 3, 4, 5, 6, 9, 14, 25} {
			sp.During = append(sp.During, At{Tick: tick, Act: acts[i%len(acts)]})
		}
		p.Steps = append(p.Steps, sp)
	}
	return p
}

func enumCase(op operator, pa pathT, seed, mode string) Case {
	c := Case{Cfg: vmx.Cfg{CoC: true, WoD: true, Fate: true, DC: true, OpLimit: 30000, Mode: mode, SeedHex: seed}}
	src := pa.wrap(op.Src)
	if pa.DefSide {
		c.Cfg.DefSide = op.Src
	}
	if pa.Host {
		c.Host = op.Src
	}
	c.Steps = []Step{
		{Src: src, API: pa.API, Kinds: []string{op.Name + "@" + pa.Name}},
		{Src: "[2d6, d20, [1,2,3,4].shuffle()]", Kinds: []string{"continuation-after:" + op.Name + "@" + pa.Name}},
	}
	c.PlanA = enumPlan()
	c.Cuts = []int{0}
	c.MustDraw = true
	return c
}

// ---------------------------------------------------------------------------

func bucket(n int) string {
	switch {
	case n == 0:
		return "0"
	case n == 1:
		return "1"
	case n < 10:
		return "2-9"
	case n < 100:
		return "10-99"
	}
	return "100+"
}

func TestProp(t *testing.T) {
	run := rt.Begin(t, "C06")
	defer run.Finish()

	run.Enum("paths", "every randomness operator (XdY with each modifier, chains, dice operands, default-sided dice, fate, CoC b/p, WoD, Double Cross, rand, shuffle, randSize) x every path into the evaluator (top level, operands, containers, function bodies first and cached call, nested functions, computed values, function in computed, template holes, loops, st command values and modifications, Parse+RunAfterParsed once and twice, RunExpr, DefaultDiceSideExpr, a computed value supplied by GlobalValueLoadFunc, a host native function that calls RunExpr) x seeds x modes, followed by a continuation step; oracles replay/noleak/resume plus: in random mode the step must move the context's generator; non-trivial = random mode, >= 2 draws, interference executed; distinct by (operator, path, seed, mode)",
		func(s *rt.Section) {
			modes := []string{""}
			seeds := enumSeeds
			if run.Env.Thorough() {
				modes = []string{"", "min", "max"}
				seeds = append(append([]string(nil), seeds...), "00000000000000000000000000000000", "ffffffffffffffffffffffffffffffff")
				for i := 0; i < 7; i++ {
					x := rt.Mix(run.Env.Seed + uint64(i)*7919)
					y := rt.Mix(x)
					seeds = append(seeds, fmt.Sprintf("%016x%016x", x, y))
				}
			} else {
				x := rt.Mix(run.Env.Seed)
				seeds = append(append([]string(nil), seeds...), fmt.Sprintf("%016x%016x", x, rt.Mix(x)))
			}
			s.Exhaustive = true
			s.Bounds = fmt.Sprintf("%d operators x %d paths x %d seeds in random mode, one fixed interference plan (9 injection points per run)", len(operators), len(paths), len(seeds))
			if len(modes) > 1 {
				s.Bounds += fmt.Sprintf("; the same table under min mode and max mode for 2 seeds")
			}
			idx := 0
			for _, op := range operators {
				for _, pa := range paths {
					for si, seed := range seeds {
						for mi, mode := range modes {
							if mi > 0 && si >= 2 {
								continue // min/max mode never draws: two seeds are enough to show the history still agrees
							}
							idx++
							if idx%run.Env.NShards != run.Env.Shard {
								continue
							}
							if pa.DefSide && op.Arr {
								s.Class("skipped:array-as-default-sides")
								continue
							}
							if strings.HasPrefix(pa.Name, "st") && op.defaultSided() {
								s.Class("skipped:st-value-has-no-Nd-syntax") // ^st力量=d reads a variable named d
								continue
							}
							c := enumCase(op, pa, seed, mode)
							s.Eval()
							s.Crumb(c)
							v := judge(c, s)
							if v.discard != "" {
								s.Discard(v.discard)
								continue
							}
							s.Class("path:" + pa.Name)
							if v.stepErrs > 0 {
								s.Class("step-error")
							}
							if mode == "" && v.draws >= 2 && v.actsRan > 0 {
								s.NonTrivial(rt.Hash(op.Name, pa.Name, seed, mode))
							}
							if idx%97 == 0 {
								s.Sample(rt.Hash(op.Name, pa.Name, seed), map[string]any{"src": c.Steps[0].Src, "defaultSide": c.Cfg.DefSide, "seed": seed, "ret": v.clean.outs[0].Ret, "detail": v.clean.outs[0].Detail, "draws": v.draws})
							}
							if s.Report(nil, v.f) {
								return
							}
						}
					}
				}
			}
		})

	run.Check("history", 7000, 80000,
		"a history of 1..4 programs on one seeded context (generated programs dense in dice of every enabled family, random array methods, default-sided dice, dice in function/computed/template/loop bodies; or an operator x path table entry; run through Run, Parse+RunAfterParsed once or twice, or RunExpr with ctx.Error/NumOpCount cleared) x 16 seed bytes x configuration (families, mode, IgnoreDiv0, DefaultDiceSideExpr) x interference plans (unseeded VMs, other seeded VMs, VMs with the subject's own seed, Roll*/x-exp-rand/math-rand global draws, observers; before the context exists, on the very context object before it is seeded and re-initialised, between steps, and inside a run at chosen instruction/die-roll ticks) x resume cuts; oracles replay/noleak/resume; non-trivial = random mode, >= 2 draws from the context generator in the reference run and >= 1 interference act executed; distinct by (programs, seed)",
		func(t *rapid.T, s *rt.Section) {
			c := drawCase(t, s)
			s.Eval()
			s.Crumb(c)
			v := judge(c, s)
			if v.discard != "" {
				s.Discard(v.discard)
				return
			}
			var srcs []string
			for _, st := range c.Steps {
				srcs = append(srcs, st.API+":"+st.Src)
				if len(st.Kinds) == 2 && st.Kinds[0] == "table" {
					s.Class("table-step")
					if op, pa, ok := strings.Cut(st.Kinds[1], "@"); ok {
						s.Class("table-op:" + op)
						s.Class("table-path:" + pa)
					}
				} else {
					for _, k := range st.Kinds {
						s.Class("has:" + k)
					}
				}
				s.Class("api:" + apiName(st.API))
			}
			h := rt.Hash(append(srcs, c.Cfg.SeedHex)...)
			s.Class("draws:" + bucket(v.draws))
			s.Class("mode:" + c.Cfg.Mode)
			s.Class(fmt.Sprintf("steps:%d", len(c.Steps)))
			s.Class("acts-executed:" + bucket(v.actsRan))
			s.Class("acts-inside-a-run:" + bucket(v.inside))
			s.Class("acts-on-global-generators:" + bucket(v.globRan))
			if v.resumed > 0 {
				s.Class("resumed")
			}
			if c.PlanA.Reuse != "" || c.PlanB.Reuse != "" {
				s.Class("context-object-reused-after-unseeded-run")
			}
			if v.farStates > 0 {
				s.Class("draws:more-than-40000-in-a-step")
			}
			if v.stepErrs > 0 {
				s.Class("has-error-step")
			}
			if c.NoRandom {
				s.Class("no-randomness-history")
			}
			if c.Cfg.DefSide != "" {
				s.Class("default-side-expr")
			}
			if c.Cfg.Mode == "" && v.draws >= 2 && v.actsRan > 0 && v.f == nil {
				s.NonTrivial(h)
				if len(strings.Join(srcs, "")) < 160 {
					s.Sample(h, map[string]any{"steps": srcs, "seed": c.Cfg.SeedHex, "draws": v.draws, "acts": v.actsRan, "ret": v.clean.outs[len(v.clean.outs)-1].Ret})
				}
			}
			s.Report(t, v.f)
		})
}

func TestReplay(t *testing.T) {
	fn := func(b []byte, s *rt.Section) *rt.Failure {
		var c Case
		if err := json.Unmarshal(b, &c); err != nil {
			return s.NewFailure("replay", "replay:bad-case", nil, err.Error(), "")
		}
		// a leak into a process-wide generator shows only when that generator's value matters: try a few times
		for i := 0; i < 3; i++ {
			if f := checkCase(c, s); f != nil {
				return f
			}
		}
		return nil
	}
	rt.Replay(t, "C06", map[string]rt.ReplayFunc{"paths": fn, "history": fn})
}
