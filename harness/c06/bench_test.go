package c06

import (
	"testing"

	ds "github.com/sealdice/dicescript"
	"verif/harness/vmx"
)

func BenchmarkTinyRun(b *testing.B) {
	cfg := vmx.Cfg{CoC: true, WoD: true, Fate: true, DC: true, OpLimit: 30000, SeedHex: "000102030405060708090a0b0c0d0e0f"}
	for i := 0; i < b.N; i++ {
		vm := cfg.NewVM()
		_ = vm.Run("2d6+d20")
		_ = vm.GetDetailText()
	}
}
func BenchmarkFuncRun(b *testing.B) {
	cfg := vmx.Cfg{CoC: true, WoD: true, Fate: true, DC: true, OpLimit: 30000, SeedHex: "000102030405060708090a0b0c0d0e0f"}
	for i := 0; i < b.N; i++ {
		vm := cfg.NewVM()
		_ = vm.Run("func g3() { 2d6 }; func g4() { [g3(), g3()] }; g4()")
	}
}
func BenchmarkLeak(b *testing.B) {
	for i := 0; i < b.N; i++ {
		g := leakArm(5)
		_ = leakCheck(5, g)
	}
}
func BenchmarkEnumCase(b *testing.B) {
	c := enumCase(operators[1], paths[8], enumSeeds[1], "")
	for i := 0; i < b.N; i++ {
		_ = judge(c, nil)
	}
}
var _ = ds.NewVM
