// C12 — ValueMap is a correct map, sequentially and under concurrency.
package c12

import (
	"encoding/json"
	"fmt"
	"sort"
	"strconv"
	"strings"
	"sync"
	"sync/atomic"
	"testing"
	"time"

	"github.com/anishathalye/porcupine"
	ds "github.com/sealdice/dicescript"
	"pgregory.net/rapid"

	"verif/harness/rt"
)

// ---------------------------------------------------------------------------
// operations and the reference model

type Op struct {
	G  int    `json:"g,omitempty"` // goroutine (concurrent histories)
	Op string `json:"op"`
	K  string `json:"k,omitempty"`
	V  int    `json:"v,omitempty"`
}

func (o Op) String() string {
	switch o.Op {
	case "Store", "LoadOrStore":
		return fmt.Sprintf("%s(%s,%d)", o.Op, o.K, o.V)
	case "Load", "LoadAndDelete", "Delete":
		return fmt.Sprintf("%s(%s)", o.Op, o.K)
	}
	return o.Op
}

type Case struct {
	Ops []Op `json:"ops"`
}

func seqString(ops []Op) string {
	var sb strings.Builder
	for i, o := range ops {
		if i > 0 {
			sb.WriteString("; ")
		}
		sb.WriteString(o.String())
	}
	return sb.String()
}

// val: the value 0 stands for a nil *VMValue, which an ordinary map[string]*VMValue holds like any other value (the
// repository's own TestValueMap stores one); every other number is an int value.
func val(v int) *ds.VMValue {
	if v == 0 {
		return nil
	}
	return ds.NewIntVal(ds.IntType(v))
}

func intOf(v *ds.VMValue) (int, bool) {
	if v == nil {
		return 0, true
	}
	i, ok := v.ReadInt()
	return int(i), ok
}

func fmtMap(m map[string]int) string {
	keys := make([]string, 0, len(m))
	for k := range m {
		keys = append(keys, k)
	}
	sort.Strings(keys)
	var sb strings.Builder
	sb.WriteString("{")
	for i, k := range keys {
		if i > 0 {
			sb.WriteString(",")
		}
		fmt.Fprintf(&sb, "%s:%d", k, m[k])
	}
	sb.WriteString("}")
	return sb.String()
}

// rangeAll collects what Range reports; dup reports a key visited twice.
func rangeAll(m *ds.ValueMap) (got map[string]int, dup string, bad string) {
	got = map[string]int{}
	m.Range(func(k string, v *ds.VMValue) bool {
		if _, seen := got[k]; seen {
			dup = k
		}
		i, ok := intOf(v)
		if !ok {
			bad = k
		}
		got[k] = i
		return true
	})
	return
}

func mapsEqual(a, b map[string]int) bool {
	if len(a) != len(b) {
		return false
	}
	for k, v := range a {
		if w, ok := b[k]; !ok || w != v {
			return false
		}
	}
	return true
}

// stepResult applies op to both the implementation and the model and returns a
// description of the first disagreement ("" when they agree).
func applyOp(m *ds.ValueMap, model map[string]int, o Op) (sig, observed, expected string) {
	switch o.Op {
	case "Store":
		m.Store(o.K, val(o.V))
		model[o.K] = o.V
	case "Load":
		v, ok := m.Load(o.K)
		mv, mok := model[o.K]
		gi, gok := intOf(v)
		if ok != mok || (ok && (!gok || gi != mv)) {
			return "model:Load", fmt.Sprintf("(%v,%v)", gi, ok), fmt.Sprintf("(%v,%v)", mv, mok)
		}
	case "LoadOrStore":
		act, loaded := m.LoadOrStore(o.K, val(o.V))
		mv, mok := model[o.K]
		want := mv
		if !mok {
			model[o.K] = o.V
			want = o.V
		}
		gi, gok := intOf(act)
		if loaded != mok || !gok || gi != want {
			return "model:LoadOrStore", fmt.Sprintf("(%v,%v)", gi, loaded), fmt.Sprintf("(%v,%v)", want, mok)
		}
	case "LoadAndDelete":
		v, loaded := m.LoadAndDelete(o.K)
		mv, mok := model[o.K]
		delete(model, o.K)
		gi, gok := intOf(v)
		if loaded != mok || (loaded && (!gok || gi != mv)) {
			return "model:LoadAndDelete", fmt.Sprintf("(%v,%v)", gi, loaded), fmt.Sprintf("(%v,%v)", mv, mok)
		}
	case "Delete":
		m.Delete(o.K)
		delete(model, o.K)
	case "Clear":
		m.Clear()
		for k := range model {
			delete(model, k)
		}
	case "Range":
		got, dup, bad := rangeAll(m)
		if dup != "" {
			return "model:Range-dup", "key " + dup + " visited twice", "each live key once"
		}
		if bad != "" {
			return "model:Range-bad", "non-int value at " + bad, "stored values"
		}
		if !mapsEqual(got, model) {
			return "model:Range", fmtMap(got), fmtMap(model)
		}
	case "RangeStop":
		// early-terminated Range: must visit exactly one live pair (or none when empty)
		n := 0
		var k0 string
		var v0 int
		m.Range(func(k string, v *ds.VMValue) bool {
			n++
			k0 = k
			v0, _ = intOf(v)
			return false
		})
		if len(model) == 0 && n != 0 {
			return "model:RangeStop", fmt.Sprintf("%d visits", n), "0 visits on an empty map"
		}
		if len(model) > 0 {
			if n != 1 {
				return "model:RangeStop", fmt.Sprintf("%d visits", n), "1 visit then stop"
			}
			if mv, ok := model[k0]; !ok || mv != v0 {
				return "model:RangeStop", fmt.Sprintf("(%s,%d)", k0, v0), "a live pair of " + fmtMap(model)
			}
		}
	case "Length":
		n := m.Length()
		if n != len(model) {
			return "model:Length", fmt.Sprint(n), fmt.Sprint(len(model))
		}
	case "JSON":
		// bulk: serialise, restore into a fresh map, which replaces the subject
		b, err := m.ToJSON()
		if err != nil {
			return "model:ToJSON", err.Error(), "no error"
		}
		var dec map[string]json.RawMessage
		if err := json.Unmarshal(b, &dec); err != nil {
			return "model:ToJSON", "invalid JSON " + string(b), "a JSON object"
		}
		if len(dec) != len(model) {
			return "model:ToJSON", string(b), fmtMap(model)
		}
		if err := m.UnmarshalJSON(b); err != nil {
			return "model:UnmarshalJSON", err.Error(), "no error"
		}
	}
	return "", "", ""
}

// finalObservers checks quiescent agreement without being part of the sequence.
func finalObservers(m *ds.ValueMap, model map[string]int, keys []string) (sig, observed, expected string) {
	if n := m.Length(); n != len(model) {
		return "model:Length", fmt.Sprint(n), fmt.Sprint(len(model))
	}
	for _, k := range keys {
		if s, o, e := applyOp(m, model, Op{Op: "Load", K: k}); s != "" {
			return s, o, e
		}
	}
	if s, o, e := applyOp(m, model, Op{Op: "Range"}); s != "" {
		return s, o, e
	}
	if n := m.Length(); n != len(model) {
		return "model:Length", fmt.Sprint(n), fmt.Sprint(len(model))
	}
	return "", "", ""
}

func checkSeq(c Case, s *rt.Section, keys []string) *rt.Failure {
	m := &ds.ValueMap{}
	model := map[string]int{}
	var fail *rt.Failure
	pi := rt.Guard(func() {
		for i, o := range c.Ops {
			if sig, obs, exp := applyOp(m, model, o); sig != "" {
				fail = s.NewFailure("reference-map", sig, c, fmt.Sprintf("step %d %s -> %s", i, o, obs), exp)
				return
			}
		}
		if sig, obs, exp := finalObservers(m, model, keys); sig != "" {
			fail = s.NewFailure("reference-map", sig, c, "after the sequence: "+obs, exp)
		}
	})
	if pi != nil {
		return s.NewFailure("no-panic", pi.Sig(), c, pi.Value, "no panic")
	}
	return fail
}

// nontrivial rule for sequential sequences: a delete-type op happens after a
// promotion trigger (Range, or a Load/LoadOrStore/LoadAndDelete that can count as a miss).
func seqNonTrivial(ops []Op) bool {
	promoted := false
	stored := false
	for _, o := range ops {
		switch o.Op {
		case "Store", "LoadOrStore":
			stored = true
		}
		switch o.Op {
		case "Range", "RangeStop", "Load", "LoadOrStore", "JSON":
			if stored {
				promoted = true
			}
		case "Delete", "LoadAndDelete", "Clear":
			if promoted {
				return true
			}
			if stored {
				promoted = true // LoadAndDelete on a dirty key is itself a miss
			}
		}
	}
	return false
}

// ---------------------------------------------------------------------------
// exhaustive enumeration

func alphabet(keys []string, vals []int) []Op {
	var a []Op
	for _, k := range keys {
		for _, v := range vals {
			a = append(a, Op{Op: "Store", K: k, V: v})
		}
	}
	for _, k := range keys {
		a = append(a, Op{Op: "Load", K: k})
	}
	for _, k := range keys {
		for _, v := range vals {
			a = append(a, Op{Op: "LoadOrStore", K: k, V: v})
		}
	}
	for _, k := range keys {
		a = append(a, Op{Op: "LoadAndDelete", K: k})
	}
	for _, k := range keys {
		a = append(a, Op{Op: "Delete", K: k})
	}
	a = append(a, Op{Op: "Clear"}, Op{Op: "Range"}, Op{Op: "Length"})
	return a
}

func enumerate(s *rt.Section, run *rt.Run, keys []string, vals []int, length int) {
	alpha := alphabet(keys, vals)
	n := len(alpha)
	idx := make([]int, length)
	ops := make([]Op, length)
	total := int64(0)
	// shard on the first two positions
	for first := 0; first < n*n; first++ {
		if first%run.Env.NShards != run.Env.Shard {
			continue
		}
		idx[0], idx[1] = first/n, first%n
		for i := 2; i < length; i++ {
			idx[i] = 0
		}
		for {
			for i := 0; i < length; i++ {
				ops[i] = alpha[idx[i]]
			}
			total++
			c := Case{Ops: ops}
			nt := seqNonTrivial(ops)
			if nt {
				s.NonTrivial(rt.Hash(seqString(ops)))
			}
			if total%200003 == 1 {
				cp := append([]Op(nil), ops...)
				s.Sample(rt.Hash(seqString(cp)), seqString(cp))
			}
			if f := checkSeq(c, s, keys); f != nil {
				cp := append([]Op(nil), ops...)
				f2 := checkSeq(Case{Ops: cp}, s, keys) // re-marshal with a stable slice
				if f2 == nil {
					f2 = f
				}
				// shrink: shortest failing prefix/suffix removal
				f2 = shrinkSeq(cp, s, keys, f2)
				if s.Report(nil, f2) {
					s.EvalN(total)
					return
				}
			}
			// increment positions 2..length-1
			p := length - 1
			for p >= 2 {
				idx[p]++
				if idx[p] < n {
					break
				}
				idx[p] = 0
				p--
			}
			if p < 2 {
				break
			}
		}
	}
	s.EvalN(total)
}

// shrinkSeq greedily removes operations while the same signature still fails.
func shrinkSeq(ops []Op, s *rt.Section, keys []string, f *rt.Failure) *rt.Failure {
	cur := append([]Op(nil), ops...)
	best := f
	changed := true
	for changed {
		changed = false
		for i := 0; i < len(cur); i++ {
			cand := append(append([]Op(nil), cur[:i]...), cur[i+1:]...)
			if g := checkSeq(Case{Ops: cand}, s, keys); g != nil && g.Signature == best.Signature {
				cur, best, changed = cand, g, true
				break
			}
		}
	}
	return best
}

// ---------------------------------------------------------------------------
// concurrent histories

type ConcCase struct {
	Prefix []Op   `json:"prefix"` // sequential set-up
	Procs  [][]Op `json:"procs"`
	Yields []int  `json:"yields"` // per goroutine: spin count before starting
}

type mapIn struct {
	op string
	k  string
	v  int
}
type mapOut struct {
	v  int
	ok bool
}

const absent = -1

type kvState [4]int // keys a,b,c,d -> value or absent

func keyIdx(k string) int { return int(k[0] - 'a') }

var mapModel = porcupine.Model{
	Init: func() interface{} { return kvState{absent, absent, absent, absent} },
	Step: func(state, input, output interface{}) (bool, interface{}) {
		st := state.(kvState)
		in := input.(mapIn)
		out := output.(mapOut)
		switch in.op {
		case "Store":
			st[keyIdx(in.k)] = in.v
			return true, st
		case "Load":
			cur := st[keyIdx(in.k)]
			if cur == absent {
				return !out.ok, st
			}
			return out.ok && out.v == cur, st
		case "LoadOrStore":
			cur := st[keyIdx(in.k)]
			if cur == absent {
				st[keyIdx(in.k)] = in.v
				return !out.ok && out.v == in.v, st
			}
			return out.ok && out.v == cur, st
		case "LoadAndDelete":
			cur := st[keyIdx(in.k)]
			st[keyIdx(in.k)] = absent
			if cur == absent {
				return !out.ok, st
			}
			return out.ok && out.v == cur, st
		case "Delete":
			st[keyIdx(in.k)] = absent
			return true, st
		case "Clear":
			return true, kvState{absent, absent, absent, absent}
		}
		return false, st
	},
	Equal: func(a, b interface{}) bool { return a.(kvState) == b.(kvState) },
	DescribeOperation: func(input, output interface{}) string {
		in := input.(mapIn)
		out := output.(mapOut)
		return fmt.Sprintf("%s(%s,%d)->(%d,%v)", in.op, in.k, in.v, out.v, out.ok)
	},
}

func doOp(m *ds.ValueMap, o Op) mapOut {
	switch o.Op {
	case "Store":
		m.Store(o.K, val(o.V))
	case "Load":
		v, ok := m.Load(o.K)
		i, _ := intOf(v)
		return mapOut{i, ok}
	case "LoadOrStore":
		a, loaded := m.LoadOrStore(o.K, val(o.V))
		i, _ := intOf(a)
		return mapOut{i, loaded}
	case "LoadAndDelete":
		v, loaded := m.LoadAndDelete(o.K)
		i, _ := intOf(v)
		return mapOut{i, loaded}
	case "Delete":
		m.Delete(o.K)
	case "Clear":
		m.Clear()
	}
	return mapOut{}
}

var concKeys = []string{"a", "b", "c"}

var sink atomic.Int64

func checkConc(c ConcCase, s *rt.Section) (*rt.Failure, bool) {
	m := &ds.ValueMap{}
	var clock atomic.Int64
	var hist []porcupine.Operation
	var hmu sync.Mutex
	rangeViol := ""
	written := map[string]map[int]bool{}
	note := func(o Op) {
		if o.Op == "Store" || o.Op == "LoadOrStore" {
			if written[o.K] == nil {
				written[o.K] = map[int]bool{}
			}
			written[o.K][o.V] = true
		}
	}
	for _, o := range c.Prefix {
		note(o)
	}
	for _, p := range c.Procs {
		for _, o := range p {
			note(o)
		}
	}
	record := func(g int, o Op, call int64, out mapOut, ret int64) {
		hmu.Lock()
		hist = append(hist, porcupine.Operation{ClientId: g, Input: mapIn{o.Op, o.K, o.V}, Call: call, Output: out, Return: ret})
		hmu.Unlock()
	}
	var pinfo *rt.PanicInfo
	var pmu sync.Mutex
	run1 := func(g int, o Op) {
		if o.Op == "Range" || o.Op == "Length" {
			// weak contract during the concurrent phase (inherited from sync.Map)
			if o.Op == "Length" {
				n := m.Length()
				if n < 0 || n > len(concKeys) {
					hmu.Lock()
					rangeViol = fmt.Sprintf("Length()=%d with at most %d keys ever stored", n, len(concKeys))
					hmu.Unlock()
				}
				return
			}
			seen := map[string]bool{}
			m.Range(func(k string, v *ds.VMValue) bool {
				i, ok := intOf(v)
				hmu.Lock()
				if seen[k] {
					rangeViol = "Range visited key " + k + " twice"
				}
				if !ok || !written[k][i] {
					rangeViol = fmt.Sprintf("Range reported (%s,%d) which no operation ever wrote", k, i)
				}
				hmu.Unlock()
				seen[k] = true
				return true
			})
			return
		}
		call := clock.Add(1)
		out := doOp(m, o)
		ret := clock.Add(1)
		record(g, o, call, out, ret)
	}
	for _, o := range c.Prefix {
		run1(0, o)
	}
	var wg sync.WaitGroup
	start := make(chan struct{})
	for g, p := range c.Procs {
		wg.Add(1)
		go func(g int, p []Op) {
			defer wg.Done()
			defer func() {
				if r := recover(); r != nil {
					pmu.Lock()
					pinfo = &rt.PanicInfo{Value: fmt.Sprint(r), Func: "concurrent", Line: fmt.Sprint(r)}
					pmu.Unlock()
				}
			}()
			<-start
			y := 0
			if g < len(c.Yields) {
				y = c.Yields[g]
			}
			x := int64(0)
			for i := 0; i < y*50; i++ {
				x += int64(i)
			}
			sink.Add(x)
			for _, o := range p {
				run1(g+1, o)
			}
		}(g, p)
	}
	close(start)
	wg.Wait()
	if pinfo != nil {
		return s.NewFailure("no-panic", "panic:"+pinfo.Value, c, pinfo.Value, "no panic"), false
	}
	if rangeViol != "" {
		return s.NewFailure("range-contract", "conc:range", c, rangeViol, "each key at most once, values that were written"), false
	}
	// quiescent observation by one goroutine
	for _, k := range concKeys {
		run1(0, Op{Op: "Load", K: k})
	}
	// final Range/Length must agree with the final Loads
	final := map[string]int{}
	for _, op := range hist[len(hist)-len(concKeys):] {
		out := op.Output.(mapOut)
		if out.ok {
			final[op.Input.(mapIn).k] = out.v
		}
	}
	got, dup, _ := rangeAll(m)
	if dup != "" || !mapsEqual(got, final) {
		return s.NewFailure("quiescent", "conc:quiescent-range", c, fmtMap(got), fmtMap(final)), false
	}
	if n := m.Length(); n != len(final) {
		return s.NewFailure("quiescent", "model:Length", c, fmt.Sprintf("quiescent Length()=%d", n), fmt.Sprint(len(final))), false
	}
	res := porcupine.CheckOperationsTimeout(mapModel, hist, 20*time.Second)
	switch res {
	case porcupine.Ok:
		return nil, false
	case porcupine.Unknown:
		return nil, true
	}
	var sb strings.Builder
	sort.Slice(hist, func(i, j int) bool { return hist[i].Call < hist[j].Call })
	for _, h := range hist {
		fmt.Fprintf(&sb, "g%d [%d,%d] %s\n", h.ClientId, h.Call, h.Return, mapModel.DescribeOperation(h.Input, h.Output))
	}
	return s.NewFailure("linearizability", "conc:not-linearizable", c, sb.String(), "a linearizable history of a map"), false
}

// ---------------------------------------------------------------------------
// script level: dict len / truthiness / equality vs an independent model

type ScriptCase struct {
	Steps []ScriptStep `json:"steps"`
}
type ScriptStep struct {
	Kind string `json:"kind"` // set | observe | cmp
	D    int    `json:"d"`    // which dict (0..2)
	K    string `json:"k,omitempty"`
	V    int    `json:"v,omitempty"`
	How  string `json:"how,omitempty"`
	D2   int    `json:"d2,omitempty"`
}

var dnames = []string{"g0", "g1", "g2"}

func checkScript(c ScriptCase, s *rt.Section) *rt.Failure {
	vm := ds.NewVM()
	models := []map[string]int{{}, {}, {}}
	runv := func(src string) (*ds.VMValue, string) {
		var err error
		pi := rt.Guard(func() { err = vm.Run(src) })
		if pi != nil {
			return nil, "panic: " + pi.Value
		}
		if err != nil {
			return nil, "error: " + err.Error()
		}
		if strings.TrimSpace(vm.RestInput) != "" {
			return nil, "unparsed rest: " + vm.RestInput
		}
		return vm.Ret, ""
	}
	for i, n := range dnames {
		_ = i
		if _, e := runv(n + " = {}"); e != "" {
			return s.NewFailure("script", "script:setup", c, e, "ok")
		}
	}
	for i, st := range c.Steps {
		d := dnames[st.D]
		switch st.Kind {
		case "set":
			src := ""
			switch st.How {
			case "item":
				src = fmt.Sprintf("%s['%s'] = %d", d, st.K, st.V)
			default:
				src = fmt.Sprintf("%s.%s = %d", d, st.K, st.V)
			}
			if _, e := runv(src); e != "" {
				return s.NewFailure("script", "script:set", c, fmt.Sprintf("step %d %q: %s", i, src, e), "ok")
			}
			models[st.D][st.K] = st.V
		case "observe":
			var src string
			switch st.How {
			case "toStr":
				src = "toStr(" + d + ")"
			case "keys":
				src = d + ".keys()"
			case "tmpl":
				src = "`{" + d + "}`"
			case "values":
				src = d + ".values()"
			case "get":
				src = d + "['" + st.K + "']"
			default:
				src = d + ".items()"
			}
			v, e := runv(src)
			if e != "" {
				return s.NewFailure("script", "script:observe", c, fmt.Sprintf("step %d %q: %s", i, src, e), "ok")
			}
			if st.How == "get" {
				mv, ok := models[st.D][st.K]
				gi, gok := intOf(v)
				if ok && (!gok || gi != mv) || !ok && v.TypeId != ds.VMTypeNull {
					return s.NewFailure("script", "script:get", c, fmt.Sprintf("step %d %q -> %s", i, src, v.ToString()), fmt.Sprintf("%v,%v", mv, ok))
				}
			}
		case "cmp":
			d2 := dnames[st.D2]
			m1, m2 := models[st.D], models[st.D2]
			// len
			v, e := runv(d + ".len()")
			if e != "" {
				return s.NewFailure("script", "script:len", c, e, "ok")
			}
			if gi, _ := intOf(v); gi != len(m1) {
				return s.NewFailure("script", "script:len", c, fmt.Sprintf("step %d %s.len() = %d", i, d, gi), fmt.Sprint(len(m1)))
			}
			// truthiness
			v, e = runv(d + " ? 1 : 0")
			if e != "" {
				return s.NewFailure("script", "script:truthy", c, e, "ok")
			}
			want := 0
			if len(m1) > 0 {
				want = 1
			}
			if gi, _ := intOf(v); gi != want {
				return s.NewFailure("script", "script:truthy", c, fmt.Sprintf("step %d truthiness of %s = %d", i, d, gi), fmt.Sprint(want))
			}
			// equality both ways and inequality
			for _, pair := range [][2]string{{d, d2}, {d2, d}} {
				v, e = runv(pair[0] + " == " + pair[1])
				if e != "" {
					return s.NewFailure("script", "script:eq", c, e, "ok")
				}
				weq := 0
				if mapsEqual(m1, m2) {
					weq = 1
				}
				if gi, _ := intOf(v); gi != weq {
					return s.NewFailure("script", "script:dict-eq", c,
						fmt.Sprintf("step %d %s == %s gives %d; %s=%s %s=%s", i, pair[0], pair[1], gi, d, fmtMap(m1), d2, fmtMap(m2)), fmt.Sprint(weq))
				}
				v, e = runv(pair[0] + " != " + pair[1])
				if e != "" {
					return s.NewFailure("script", "script:ne", c, e, "ok")
				}
				if gi, _ := intOf(v); gi != 1-weq {
					return s.NewFailure("script", "script:dict-eq", c,
						fmt.Sprintf("step %d %s != %s gives %d", i, pair[0], pair[1], gi), fmt.Sprint(1-weq))
				}
			}
		}
	}
	return nil
}

// ---------------------------------------------------------------------------
// generators

var seqKeys = []string{"a", "b", "c", "d", "e", "f"}

func genOp(t *rapid.T, keys []string, withBulk bool) Op {
	names := []string{"Store", "Store", "Load", "LoadOrStore", "LoadAndDelete", "Delete", "Delete", "Range", "Length", "Clear", "RangeStop"}
	if withBulk {
		names = append(names, "JSON")
	}
	o := Op{Op: rapid.SampledFrom(names).Draw(t, "op")}
	switch o.Op {
	case "Store", "LoadOrStore":
		o.K = rapid.SampledFrom(keys).Draw(t, "k")
		o.V = rapid.IntRange(1, 4).Draw(t, "v")
		if !withBulk && rapid.IntRange(0, 7).Draw(t, "nilValue") == 0 {
			o.V = 0 // a nil pointer as the stored value (not through JSON, which has no form for it)
		}
	case "Load", "LoadAndDelete", "Delete":
		o.K = rapid.SampledFrom(keys).Draw(t, "k")
	}
	return o
}

func genConcOp(t *rapid.T) Op {
	names := []string{"Store", "Store", "Load", "Load", "LoadOrStore", "LoadAndDelete", "Delete", "Clear", "Range", "Length"}
	o := Op{Op: rapid.SampledFrom(names).Draw(t, "op")}
	switch o.Op {
	case "Store", "LoadOrStore":
		o.K = rapid.SampledFrom(concKeys).Draw(t, "k")
		o.V = rapid.IntRange(1, 9).Draw(t, "v")
	case "Load", "LoadAndDelete", "Delete":
		o.K = rapid.SampledFrom(concKeys).Draw(t, "k")
	}
	return o
}

// ---------------------------------------------------------------------------

func TestProp(t *testing.T) {
	run := rt.Begin(t, "C12")
	defer run.Finish()

	enumRule := "every sequence of exactly L operations over the 17-op alphabet {Store,LoadOrStore}x{a,b}x{1,2}, {Load,LoadAndDelete,Delete}x{a,b}, Clear, Range, Length, each step compared with a Go map, plus quiescent Length/Load/Range at the end; non-trivial = a delete-type op after a possible promotion (Range or a counted miss) following a store; distinct by sequence"
	L := 5
	if run.Env.Thorough() {
		L = 6
	}
	run.Enum("enum", enumRule, func(s *rt.Section) {
		s.Exhaustive = true
		s.Bounds = fmt.Sprintf("keys {a,b}, values {1,2}, 17 operations, all sequences of length %d (every shorter sequence is a prefix)", L)
		enumerate(s, run, []string{"a", "b"}, []int{1, 2}, L)
	})
	if run.Env.Thorough() {
		run.Enum("enum3", enumRule+" (three keys, one value, length 5)", func(s *rt.Section) {
			s.Exhaustive = true
			s.Bounds = "keys {a,b,c}, value {1}, 15 operations, all sequences of length 5"
			enumerate(s, run, []string{"a", "b", "c"}, []int{1}, 5)
		})
	}

	run.Check("seq", 40000, 1500000,
		"random sequences of 1..200 operations (incl. early-terminated Range and a ToJSON/UnmarshalJSON round trip as bulk op) over 6 keys x 4 values (one sequence in four without the bulk op and with nil pointers among the stored values) against a Go map; non-trivial = delete-type op after a possible promotion; distinct by sequence",
		func(t *rapid.T, s *rt.Section) {
			n := rapid.IntRange(1, 200).Draw(t, "n")
			if rapid.Bool().Draw(t, "short") {
				n = n%12 + 1
			}
			nk := rapid.IntRange(1, len(seqKeys)).Draw(t, "nkeys")
			c := Case{}
			// one sequence in four has no JSON round trip and may store nil pointers as values
			withBulk := rapid.IntRange(0, 3).Draw(t, "withBulk") != 0
			for i := 0; i < n; i++ {
				c.Ops = append(c.Ops, genOp(t, seqKeys[:nk], withBulk))
			}
			for _, o := range c.Ops {
				if (o.Op == "Store" || o.Op == "LoadOrStore") && o.V == 0 {
					s.Class("stores-a-nil-pointer")
					break
				}
			}
			s.Eval()
			str := seqString(c.Ops)
			h := rt.Hash(str)
			if seqNonTrivial(c.Ops) {
				s.NonTrivial(h)
			}
			s.Class(fmt.Sprintf("len<=%d", bucket(len(c.Ops))))
			for _, o := range c.Ops {
				if o.Op == "JSON" {
					s.Class("has-json-roundtrip")
					break
				}
			}
			if len(c.Ops) <= 12 {
				s.Sample(h, str)
			}
			s.Crumb(c)
			s.Report(t, checkSeq(c, s, seqKeys))
		})

	run.Check("script", 6000, 100000,
		"script-level dict histories on three dicts: attribute/item stores, promotion-triggering observations (toStr, keys, values, items, template hole, item read), then len(), truthiness, == and != in both directions against Go maps; non-trivial = an equality comparison after an observation of either dict; distinct by step list",
		func(t *rapid.T, s *rt.Section) {
			n := rapid.IntRange(1, 14).Draw(t, "n")
			c := ScriptCase{}
			observed := false
			nt := false
			for i := 0; i < n; i++ {
				st := ScriptStep{D: rapid.IntRange(0, 2).Draw(t, "d")}
				switch rapid.IntRange(0, 9).Draw(t, "kind") {
				case 0, 1, 2, 3:
					st.Kind = "set"
					st.K = rapid.SampledFrom([]string{"x", "y", "z", "w"}).Draw(t, "k")
					st.V = rapid.IntRange(0, 3).Draw(t, "v")
					st.How = rapid.SampledFrom([]string{"attr", "item"}).Draw(t, "how")
				case 4, 5, 6:
					st.Kind = "observe"
					st.How = rapid.SampledFrom([]string{"toStr", "keys", "tmpl", "values", "items", "get"}).Draw(t, "how")
					st.K = rapid.SampledFrom([]string{"x", "y", "z", "w"}).Draw(t, "k")
					observed = true
				default:
					st.Kind = "cmp"
					st.D2 = rapid.IntRange(0, 2).Draw(t, "d2")
					if observed {
						nt = true
					}
				}
				c.Steps = append(c.Steps, st)
			}
			c.Steps = append(c.Steps, ScriptStep{Kind: "cmp", D: 0, D2: 1}, ScriptStep{Kind: "cmp", D: 1, D2: 2})
			if observed {
				nt = true
			}
			s.Eval()
			b, _ := json.Marshal(c)
			h := rt.HashBytes(b)
			if nt {
				s.NonTrivial(h)
			}
			s.Sample(h, c)
			s.Crumb(c)
			s.Report(t, checkScript(c, s))
		})

	run.Check("conc", 3000, 60000,
		"concurrent histories: optional sequential prefix, then 2..4 goroutines x 1..8 point operations (+Clear, +Range/Length held to the weak sync.Map contract) on 3 keys, invocation/response stamped by an atomic counter, quiescent Load of every key + Range + Length appended, history checked by porcupine against a sequential map (Unknown = discarded, counted); run under -race; non-trivial = two goroutines touch the same key; distinct by plan",
		func(t *rapid.T, s *rt.Section) {
			c := ConcCase{}
			np := rapid.IntRange(0, 6).Draw(t, "prefix")
			for i := 0; i < np; i++ {
				o := genConcOp(t)
				c.Prefix = append(c.Prefix, o)
			}
			g := rapid.IntRange(2, 4).Draw(t, "g")
			for i := 0; i < g; i++ {
				n := rapid.IntRange(1, 8).Draw(t, "n")
				var p []Op
				for j := 0; j < n; j++ {
					p = append(p, genConcOp(t))
				}
				c.Procs = append(c.Procs, p)
				c.Yields = append(c.Yields, rapid.IntRange(0, 40).Draw(t, "yield"))
			}
			s.Eval()
			b, _ := json.Marshal(c)
			h := rt.HashBytes(b)
			touched := map[string]int{}
			for _, p := range c.Procs {
				seen := map[string]bool{}
				for _, o := range p {
					if o.K != "" && !seen[o.K] {
						seen[o.K] = true
						touched[o.K]++
					}
					if o.Op == "Clear" {
						for _, k := range concKeys {
							if !seen[k] {
								seen[k] = true
								touched[k]++
							}
						}
					}
				}
			}
			for _, n := range touched {
				if n >= 2 {
					s.NonTrivial(h)
					break
				}
			}
			s.Sample(h, c)
			f, unknown := checkConc(c, s)
			if unknown {
				s.Discard("porcupine-timeout")
				return
			}
			s.Report(t, f)
		})

	run.Check("churn", 60, 600,
		"Length under churn: 2·K keys stored (K in 1..256), optionally promoted by a Range, the first K deleted; one writer then alternates Store(new key) / Delete(oldest key) for 2000..20000 rounds (K or K+1 live keys at every instant) while the reader calls Length 2000..20000 times; linearizable = every result is K or K+1; non-trivial = at least one Length call overlapped a write; distinct by plan",
		func(t *rapid.T, s *rt.Section) {
			c := ChurnCase{Keys: rapid.SampledFrom([]int{1, 2, 3, 8, 64, 256}).Draw(t, "keys"), Rounds: rapid.SampledFrom([]int{2000, 20000}).Draw(t, "rounds"),
				Reads: rapid.SampledFrom([]int{2000, 20000}).Draw(t, "reads"), Promote: rapid.Bool().Draw(t, "promote")}
			s.Eval()
			f, overlapped := checkChurn(c, s)
			b, _ := json.Marshal(c)
			h := rt.HashBytes(b)
			if overlapped > 0 {
				s.NonTrivial(h)
			}
			s.Sample(h, c)
			s.Report(t, f)
		})

	run.Check("stress", 400, 6000,
		"long single-writer histories under the race detector: 2..4 writer goroutines cycle a drawn pattern of Store/Delete/Load/LoadOrStore/LoadAndDelete over their own 1..4 keys for 200..4000 operations while a disturber goroutine forces dirty-map rebuilds and promotions (fresh-key Store + Range/Length + Delete); invariants: every key read by its only writer holds that writer's last write, final contents = union of the writers' last states, quiescent Length; non-trivial = pattern contains a delete followed later by a store; distinct by plan",
		func(t *rapid.T, s *rt.Section) {
			c := StressCase{Writers: rapid.IntRange(2, 4).Draw(t, "writers"), Keys: rapid.IntRange(1, 4).Draw(t, "keys"),
				Rounds: rapid.SampledFrom([]int{200, 600, 1500, 4000}).Draw(t, "rounds"), Disturb: rapid.IntRange(0, 2).Draw(t, "disturb")}
			n := rapid.IntRange(2, 6).Draw(t, "plen")
			for i := 0; i < n; i++ {
				c.Pattern = append(c.Pattern, rapid.SampledFrom([]int{0, 0, 1, 1, 2, 2, 3, 4}).Draw(t, "op"))
			}
			s.Eval()
			b, _ := json.Marshal(c)
			h := rt.HashBytes(b)
			del := false
			for _, op := range append(c.Pattern, c.Pattern...) {
				if op == 1 || op == 4 {
					del = true
				} else if del && (op == 0 || op == 3) {
					s.NonTrivial(h)
					break
				}
			}
			s.Sample(h, c)
			s.Report(t, checkStress(c, s))
		})
}

// ---------------------------------------------------------------------------
// stress: long single-writer histories — each writer goroutine owns its keys (so it knows what every one of its
// keys must hold after each of its own operations), while a disturber forces dirty-map rebuilds and promotions
// (Store of a fresh key, Range, Delete).  The invariants need no global order: a key written only by one goroutine
// must read back that goroutine's last write (or be absent after its delete) at every moment, and the final
// contents must be the union of the writers' last states.

type StressCase struct {
	Writers int   `json:"writers"`
	Keys    int   `json:"keys"`    // keys per writer
	Rounds  int   `json:"rounds"`  // operations per writer
	Pattern []int `json:"pattern"` // op codes cycled by every writer: 0 Store 1 Delete 2 Load 3 LoadOrStore 4 LoadAndDelete
	Disturb int   `json:"disturb"` // 0 fresh-key store+range+delete, 1 store+length, 2 range only
}

func checkStress(c StressCase, s *rt.Section) *rt.Failure {
	m := &ds.ValueMap{}
	var wg sync.WaitGroup
	var failMu sync.Mutex
	var fail string
	setFail := func(msg string) {
		failMu.Lock()
		if fail == "" {
			fail = msg
		}
		failMu.Unlock()
	}
	stop := make(chan struct{})
	final := make([]map[string]int, c.Writers)
	for w := 0; w < c.Writers; w++ {
		wg.Add(1)
		go func(w int) {
			defer wg.Done()
			defer func() {
				if r := recover(); r != nil {
					setFail(fmt.Sprintf("panic in writer %d: %v", w, r))
				}
			}()
			state := map[string]int{}
			val := w*1_000_000 + 1
			for i := 0; i < c.Rounds; i++ {
				k := fmt.Sprintf("w%d_%d", w, i%c.Keys)
				switch c.Pattern[i%len(c.Pattern)] {
				case 0:
					val++
					m.Store(k, ds.NewIntVal(ds.IntType(val)))
					state[k] = val
				case 1:
					m.Delete(k)
					delete(state, k)
				case 2:
					got, ok := m.Load(k)
					want, wok := state[k]
					gi, _ := intOf(got)
					if ok != wok || (ok && gi != want) {
						setFail(fmt.Sprintf("writer %d op %d: Load(%s) = (%d,%v) but its own last write left (%d,%v)", w, i, k, gi, ok, want, wok))
						return
					}
				case 3:
					val++
					act, loaded := m.LoadOrStore(k, ds.NewIntVal(ds.IntType(val)))
					want, wok := state[k]
					gi, _ := intOf(act)
					if loaded != wok || (loaded && gi != want) || (!loaded && gi != val) {
						setFail(fmt.Sprintf("writer %d op %d: LoadOrStore(%s) = (%d,%v), own state (%d,%v)", w, i, k, gi, loaded, want, wok))
						return
					}
					if !wok {
						state[k] = val
					}
				case 4:
					got, loaded := m.LoadAndDelete(k)
					want, wok := state[k]
					gi, _ := intOf(got)
					if loaded != wok || (loaded && gi != want) {
						setFail(fmt.Sprintf("writer %d op %d: LoadAndDelete(%s) = (%d,%v), own state (%d,%v)", w, i, k, gi, loaded, want, wok))
						return
					}
					delete(state, k)
				}
			}
			final[w] = state
		}(w)
	}
	var dg sync.WaitGroup
	dg.Add(1)
	go func() {
		defer dg.Done()
		n := 0
		for {
			select {
			case <-stop:
				return
			default:
			}
			n++
			k := fmt.Sprintf("fresh_%d", n%3)
			switch c.Disturb {
			case 0:
				m.Store(k, ds.NewIntVal(1))
				m.Range(func(string, *ds.VMValue) bool { return true })
				m.Delete(k)
			case 1:
				m.Store(k, ds.NewIntVal(1))
				_ = m.Length()
				m.Delete(k)
			default:
				m.Range(func(string, *ds.VMValue) bool { return true })
			}
		}
	}()
	wg.Wait()
	close(stop)
	dg.Wait()
	if fail != "" {
		return s.NewFailure("single-writer-keys", "stress:own-write-lost", c, fail, "a key written by one goroutine only always reads back that goroutine's last write")
	}
	want := map[string]int{}
	for _, st := range final {
		for k, v := range st {
			want[k] = v
		}
	}
	got, dup, _ := rangeAll(m)
	for k := range got {
		if strings.HasPrefix(k, "fresh_") {
			delete(got, k)
		}
	}
	if dup != "" || !mapsEqual(got, want) {
		return s.NewFailure("quiescent", "stress:final-contents", c, fmt.Sprintf("%d keys, e.g. %s", len(got), clipMap(got, want)), fmt.Sprintf("%d keys (union of the writers' last states)", len(want)))
	}
	extra := 0
	for i := 0; i < 3; i++ {
		if _, ok := m.Load(fmt.Sprintf("fresh_%d", i)); ok {
			extra++
		}
	}
	if n := m.Length(); n != len(want)+extra {
		return s.NewFailure("quiescent", "model:Length", c, fmt.Sprintf("quiescent Length()=%d", n), fmt.Sprint(len(want)+extra))
	}
	return nil
}

func clipMap(got, want map[string]int) string {
	for k, v := range want {
		if g, ok := got[k]; !ok || g != v {
			return fmt.Sprintf("key %s is (%d,%v), want %d", k, g, ok, v)
		}
	}
	for k, v := range got {
		if _, ok := want[k]; !ok {
			return fmt.Sprintf("unexpected key %s=%d", k, v)
		}
	}
	return "?"
}

func bucket(n int) int {
	for _, b := range []int{5, 12, 50, 100, 200} {
		if n <= b {
			return b
		}
	}
	return 1000
}

// ---------------------------------------------------------------------------
// churn: Length while one goroutine keeps the number of live keys between two known values.  The statement asks for
// linearizable executions of every listed call, Length included: a linearizable Length returns the number of live keys
// at some instant of the call, and with one writer that alternates "store a new key" / "delete the oldest key" that
// number is Keys or Keys+1 at every instant.

type ChurnCase struct {
	Keys    int  `json:"keys"`    // live keys before the churn (as many deleted ones lie before them)
	Rounds  int  `json:"rounds"`  // store-new / delete-oldest rounds of the writer
	Reads   int  `json:"reads"`   // Length calls of the reader
	Promote bool `json:"promote"` // a Range before the churn moves every key into the read-only part
}

func checkChurn(c ChurnCase, s *rt.Section) (*rt.Failure, int) {
	if c.Keys < 1 || c.Keys > 4096 || c.Rounds < 1 || c.Reads < 1 {
		return s.NewFailure("replay", "replay:bad-case", c, "bad churn case", ""), 0
	}
	m := &ds.ValueMap{}
	key := func(i int) string { return "k" + strconv.Itoa(i) }
	for i := 0; i < 2*c.Keys; i++ {
		m.Store(key(i), val(i))
	}
	if c.Promote {
		m.Range(func(string, *ds.VMValue) bool { return true })
	}
	for i := 0; i < c.Keys; i++ {
		m.Delete(key(i))
	}
	if n := m.Length(); n != c.Keys {
		return s.NewFailure("model", "model:Length", c, fmt.Sprintf("quiescent Length()=%d", n), fmt.Sprintf("%d live keys", c.Keys)), 0
	}
	var wg sync.WaitGroup
	var done atomic.Int64
	stop := make(chan struct{})
	wg.Add(1)
	go func() {
		defer wg.Done()
		oldest, next := c.Keys, 2*c.Keys
		for r := 0; r < c.Rounds; r++ {
			select {
			case <-stop:
				return
			default:
			}
			m.Store(key(next), val(next))
			next++
			m.Delete(key(oldest))
			oldest++
			done.Add(1)
		}
	}()
	lo, hi := c.Keys, c.Keys
	overlapped := 0
	for i := 0; i < c.Reads; i++ {
		before := done.Load()
		n := m.Length()
		if done.Load() != before {
			overlapped++
		}
		if n < lo {
			lo = n
		}
		if n > hi {
			hi = n
		}
	}
	close(stop)
	wg.Wait()
	if lo < c.Keys || hi > c.Keys+1 {
		return s.NewFailure("linearizable", "conc:length-not-atomic", c,
			fmt.Sprintf("Length() returned values from %d to %d while the map held %d or %d live keys at every instant (%d of %d calls overlapped a write)", lo, hi, c.Keys, c.Keys+1, overlapped, c.Reads),
			fmt.Sprintf("every Length() in [%d, %d]", c.Keys, c.Keys+1)), overlapped
	}
	return nil, overlapped
}

func TestReplay(t *testing.T) {
	seq := func(b []byte, s *rt.Section) *rt.Failure {
		var c Case
		if err := json.Unmarshal(b, &c); err != nil {
			return s.NewFailure("replay", "replay:bad-case", nil, err.Error(), "")
		}
		return checkSeq(c, s, seqKeys)
	}
	rt.Replay(t, "C12", map[string]rt.ReplayFunc{
		"enum": seq, "enum3": seq, "seq": seq,
		"script": func(b []byte, s *rt.Section) *rt.Failure {
			var c ScriptCase
			if err := json.Unmarshal(b, &c); err != nil {
				return s.NewFailure("replay", "replay:bad-case", nil, err.Error(), "")
			}
			return checkScript(c, s)
		},
		"stress": func(b []byte, s *rt.Section) *rt.Failure {
			var c StressCase
			if err := json.Unmarshal(b, &c); err != nil || c.Writers < 1 || c.Keys < 1 || len(c.Pattern) == 0 {
				return s.NewFailure("replay", "replay:bad-case", nil, "bad stress case", "")
			}
			for i := 0; i < 30; i++ {
				if f := checkStress(c, s); f != nil {
					return f
				}
			}
			return nil
		},
		"churn": func(b []byte, s *rt.Section) *rt.Failure {
			var c ChurnCase
			if err := json.Unmarshal(b, &c); err != nil {
				return s.NewFailure("replay", "replay:bad-case", nil, err.Error(), "")
			}
			for i := 0; i < 20; i++ {
				if f, _ := checkChurn(c, s); f != nil {
					return f
				}
			}
			return nil
		},
		"conc": func(b []byte, s *rt.Section) *rt.Failure {
			var c ConcCase
			if err := json.Unmarshal(b, &c); err != nil {
				return s.NewFailure("replay", "replay:bad-case", nil, err.Error(), "")
			}
			// a schedule-dependent failure may need several attempts
			for i := 0; i < 200; i++ {
				if f, _ := checkConc(c, s); f != nil {
					return f
				}
			}
			return nil
		},
	})
}
