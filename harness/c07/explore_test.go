package c07

import (
	"fmt"
	"os"
	"strings"
	"testing"
	"time"

	ds "github.com/sealdice/dicescript"

	"verif/harness/rt"
)

func runX(src string, lim int, plim uint64, mode string) string {
	vm := ds.NewVM()
	vm.Config.OpCountLimit = ds.IntType(lim)
	vm.Config.ParseExprLimit = plim
	vm.Config.EnableDiceWoD = true
	vm.Config.EnableDiceCoC = true
	vm.Config.EnableDiceFate = true
	vm.Config.EnableDiceDoubleCross = true
	vm.Config.DiceMinMode = mode == "min"
	vm.Config.DiceMaxMode = mode == "max"
	ds.VerifMeterReset(50_000_000)
	var err error
	t0 := time.Now()
	pi := rt.Guard(func() { err = vm.Run(src) })
	el := time.Since(t0)
	ops, rolls := ds.VerifOpsDone.Load(), ds.VerifRollsDone.Load()
	ds.VerifMeterReset(0)
	out := ""
	if pi != nil {
		out = "PANIC " + pi.Value + " @" + pi.Sig()
	} else if err != nil {
		out = "ERR " + err.Error()
	} else {
		s := vm.Ret.ToString()
		if len(s) > 60 {
			s = fmt.Sprintf("%s...(len %d)", s[:60], len(s))
		}
		out = "OK " + s + " rest=" + fmt.Sprintf("%q", clipS(vm.RestInput, 30))
	}
	return fmt.Sprintf("%-70s ops=%d rolls=%d cnt=%d %v", out, ops, rolls, vm.NumOpCount, el.Round(time.Millisecond))
}

func clipS(s string, n int) string {
	if len(s) > n {
		return s[:n] + "…"
	}
	return s
}

func TestExplore(t *testing.T) {
	if os.Getenv("C07_EXPLORE") == "" {
		t.Skip()
	}
	sum := func(n int) string { return strings.TrimSuffix(strings.Repeat("1+", n), "+") }
	for _, n := range []int{10, 1000, 4090, 4095, 4096, 4097, 4100, 5000, 8192, 20000} {
		fmt.Printf("sum %d: %s\n", n, runX(sum(n), 30000, 0, ""))
	}
	list := func(n int) string { return "[" + strings.TrimSuffix(strings.Repeat("1,", n), ",") + "].len()" }
	for _, n := range []int{10, 998, 999, 1000, 1001, 5000, 9000} {
		fmt.Printf("list %d: %s\n", n, runX(list(n), 30000, 0, ""))
	}
	for _, n := range []int{10, 100, 1000, 5000} {
		fmt.Printf("paren %d: %s\n", n, runX(strings.Repeat("(", n)+"7"+strings.Repeat(")", n), 30000, 0, ""))
		fmt.Printf("arrnest %d: %s\n", n, runX(strings.Repeat("[", n)+"7"+strings.Repeat("]", n), 30000, 0, ""))
	}
	for _, n := range []int{19, 20, 21, 22} {
		fmt.Printf("ifnest %d: %s\n", n, runX(strings.Repeat("if 1 { ", n)+"x=7"+strings.Repeat(" }", n)+"; x", 30000, 0, ""))
		fmt.Printf("tmplnest %d: %s\n", n, runX(strings.Repeat("`{", n)+"7"+strings.Repeat("}`", n), 30000, 0, ""))
	}
	stm := func(n int) string { return "x=0;" + strings.Repeat("x=x+1;", n) + "x" }
	for _, n := range []int{10, 1000, 2040, 2047, 2048, 2049, 3000, 10000} {
		fmt.Printf("stmts %d: %s\n", n, runX(stm(n), 100000, 0, ""))
	}
	progs := []string{
		"s='aaaaaaaaaaaaaaaa'; x=[s]*512; s=toStr(x); x=[s]*512; s=toStr(x); x=[s]*512; s=toStr(x); 1",
		"s='aaaaaaaaaaaaaaaa'; x=[s]*512; s=repr(x); x=[s]*512; s=repr(x);  1",
		"x='aaaaaaaa'; i=0; while i<40 { x=x+x; i=i+1 }",
		"x=[1]; i=0; while i<40 { x=x+x; i=i+1 }",
		"x=[1]; i=0; while i<40 { x=[x,x]; i=i+1 }; toStr(x)",
		"x=[1]; i=0; while 1 { x.push(i); i=i+1 }; x.len()",
		"func g(n){ g(n+1) }; g(0)",
		"&a = a + 1; a",
		"&a = b; &b = a; a",
		"while 1 { }",
		"1a2m100000000", "3a2m100000", "1a2", "3c6", "20000a2m1000000000", "10c2m10000000000",
		"100000000d6", "99999999999999999999d6", "b99999999999999999999", "30000d6", "29990d6", "f", "b3", "p30001", "30001b",
		"[1..512].len()", "[1..513].len()", "([1]*512).len()", "([1]*513).len()", "([1..256]+[1..256]).len()", "([1..256]+[1..257]).len()",
		"x=[]; x.push(x); toStr(x)", "x={}; x.a=x; toStr(x)",
		"[1..512].shuffle().len()", "[1..512].kh(500)",
		"x=[1..512]; y=[x,x,x,x]; z=[y,y,y,y]; toStr(z)",
	}
	for _, p := range progs {
		for _, mode := range []string{"", "min", "max"} {
			fmt.Printf("%-60s [%s] %s\n", clipS(p, 60), mode, runX(p, 30000, 0, mode))
		}
	}
	for _, pl := range []uint64{1, 10, 100, 500, 5000, 10_000_000} {
		fmt.Printf("plimit %d sum100: %s\n", pl, runX(sum(100), 30000, pl, ""))
		fmt.Printf("plimit %d '1': %s\n", pl, runX("1", 30000, pl, ""))
	}
}
