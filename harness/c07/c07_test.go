// C07 — budgets and capacity limits fail closed: bounded work, an error, no truncation.
//
// Sections
//
//	capacity  scalable program families whose value is known in closed form, with the size
//	          parameter swept across every built-in capacity (8192 instructions per code block,
//	          1000 operand-stack slots, 20 nested blocks / template holes, 512-element
//	          range/concat/repeat, the operation budget, parser recursion depth):
//	          the outcome is the closed-form value or an error, never another value, a panic
//	          or a dead process.
//	pad       a generated program P against "PAD; P" where PAD is a side-effect-free statement
//	          sized so that the 8192-instruction capacity is crossed somewhere inside P:
//	          same result and variables, or an error.
//	budget    adversarial families (huge counts, exploding dice, recursion, doubling strings and
//	          containers, endless loops), hostile templates and generated programs whose loops and
//	          counts were made unbounded, x OpCountLimit {60,200,1000,30000} x {random,min,max}:
//	          work meter and size oracles (see budgetOracles).
//	parse     ParseExprLimit L against L = 0: the outcome under a limit is an error or exactly the
//	          unlimited outcome, and acceptance is monotone in L.
//
//	sweep     bounded exhaustive: every n within a radius of each fixed capacity for every family
//	          (oracle of the capacity section).
//
// The budget oracles (a)-(d) are applied to every case of every section.
package c07

import (
	"encoding/hex"
	"encoding/json"
	"fmt"
	"math/bits"
	"strconv"
	"strings"
	"testing"

	ds "github.com/sealdice/dicescript"
	"pgregory.net/rapid"

	"verif/harness/gen"
	"verif/harness/rt"
	"verif/harness/vmx"
)

// ---------------------------------------------------------------------------
// case

type Case struct {
	Fam    string   `json:"fam,omitempty"` // family (capacity / budget); "" = explicit source
	N      int      `json:"n,omitempty"`
	M      int      `json:"m,omitempty"`
	K      int      `json:"k,omitempty"`
	Src    string   `json:"src,omitempty"`    // explicit source (generated / hostile programs)
	Pad    int      `json:"pad,omitempty"`    // pad section: number of terms of the padding sum
	Limits []uint64 `json:"limits,omitempty"` // parse section: ParseExprLimit values, ascending
	// RX (parse section): the VM has a custom dice syntax R<operand> whose stream parser reads the operand with ReadExpr
	RX   bool    `json:"rx,omitempty"`
	Cfg  vmx.Cfg `json:"cfg"`
	Note string  `json:"note,omitempty"`
}

func (c Case) key() string {
	b, _ := json.Marshal(c)
	return string(b)
}

// ---------------------------------------------------------------------------
// execution under the work meter

type outcome struct {
	err     error
	pi      *rt.PanicInfo
	ceiling bool
	ops     int64
	rolls   int64
	cnt     int64
	vm      *ds.Context
	// parse meter: expressions evaluated by all parsers built during the run, and how many parsers that were
	psteps, parsers int64
}

func (o outcome) W() int64 { return o.ops + o.rolls }

func (o outcome) ok() bool { return o.err == nil && o.pi == nil }

func (o outcome) String() string {
	switch {
	case o.ceiling:
		return fmt.Sprintf("work ceiling hit (ops=%d rolls=%d)", o.ops, o.rolls)
	case o.pi != nil:
		return "panic: " + o.pi.Value
	case o.err != nil:
		return "error: " + clip(o.err.Error(), 160)
	}
	return "ok " + clip(vmx.Repr(o.vm.Ret), 200)
}

func clip(s string, n int) string {
	if len(s) > n {
		return s[:n] + "…"
	}
	return s
}

func budgetOf(cfg vmx.Cfg) int64 { return int64(cfg.OpLimit) }

// execute runs src on a fresh VM of the configuration with the meter armed at 64·B + 10^4.
func execute(cfg vmx.Cfg, src string) outcome { return executeRX(cfg, src, false) }

// regRX registers R<operand>: the operand is whatever ReadExpr reads, the value is that expression evaluated.
func regRX(vm *ds.Context) {
	_ = vm.RegCustomDiceParser(func(ctx *ds.Context, st *ds.CustomDiceStream) (*ds.CustomDiceParseResult, error) {
		if r, ok := st.Read(); !ok || r != 'R' {
			return &ds.CustomDiceParseResult{Matched: false}, nil
		}
		v, ok, err := st.ReadExpr("")
		if err != nil {
			return nil, err
		}
		if !ok || v == nil {
			return &ds.CustomDiceParseResult{Matched: false}, nil
		}
		return &ds.CustomDiceParseResult{Matched: true, Payload: v}, nil
	}, func(ctx *ds.Context, groups []string, payload any) (*ds.VMValue, string, error) {
		v, _ := payload.(*ds.VMValue)
		if v == nil {
			return ds.NewNullVal(), "", nil
		}
		r := v.ComputedExecute(ctx, nil)
		if ctx.Error != nil {
			return nil, "", ctx.Error
		}
		if r == nil {
			return ds.NewNullVal(), "", nil
		}
		return r, "", nil
	})
}

func executeRX(cfg vmx.Cfg, src string, rx bool) outcome {
	vm := cfg.NewVM()
	if rx {
		regRX(vm)
	}
	o := outcome{vm: vm}
	B := budgetOf(cfg)
	ds.VerifMeterReset(64*B + 10_000)
	o.pi = rt.Guard(func() { o.err = vm.Run(src) })
	o.ops, o.rolls = ds.VerifOpsDone.Load(), ds.VerifRollsDone.Load()
	o.psteps, o.parsers = ds.VerifParseSteps.Load(), ds.VerifParsersMade.Load()
	ds.VerifMeterReset(0)
	o.cnt = int64(vm.NumOpCount)
	if o.pi != nil {
		if _, hit := o.pi.Raw.(ds.VerifCeilingHit); hit {
			o.ceiling = true
		}
	}
	lastOutcome = o
	return o
}

// sizes of what a program left behind: longest string, longest array, total array slots
type sizes struct {
	maxStr, maxArr, slots, nodes int
}

func measure(v *ds.VMValue, z *sizes, seen map[any]bool, depth int) {
	if v == nil || z.nodes > 2_000_000 || depth > 20_000 {
		return
	}
	z.nodes++
	switch v.TypeId {
	case ds.VMTypeString:
		if s, ok := v.ReadString(); ok && len(s) > z.maxStr {
			z.maxStr = len(s)
		}
	case ds.VMTypeArray:
		ad, ok := v.ReadArray()
		if !ok || ad == nil || seen[ad] {
			return
		}
		seen[ad] = true
		if len(ad.List) > z.maxArr {
			z.maxArr = len(ad.List)
		}
		z.slots += len(ad.List)
		for _, e := range ad.List {
			measure(e, z, seen, depth+1)
		}
	case ds.VMTypeDict:
		dd, ok := v.ReadDictData()
		if !ok || dd == nil || dd.Dict == nil || seen[dd] {
			return
		}
		seen[dd] = true
		measureMap(dd.Dict, z, seen, depth+1)
	case ds.VMTypeComputedValue:
		cd, ok := v.ReadComputed()
		if !ok || cd == nil || seen[cd] {
			return
		}
		seen[cd] = true
		if len(cd.Expr) > z.maxStr {
			z.maxStr = len(cd.Expr)
		}
		if cd.Attrs != nil {
			measureMap(cd.Attrs, z, seen, depth+1)
		}
	}
}

func measureMap(m *ds.ValueMap, z *sizes, seen map[any]bool, depth int) {
	m.Range(func(k string, v *ds.VMValue) bool {
		if len(k) > z.maxStr {
			z.maxStr = len(k)
		}
		measure(v, z, seen, depth)
		return z.nodes <= 2_000_000
	})
}

func usesRandMethods(src string) bool {
	return strings.Contains(src, "shuffle") || strings.Contains(src, "rand")
}

// budgetOracles applies (a) bounded work, (b) work proportional to the budget, (c) the counter
// accounts for the work and exceeding it is an error, (d) sizes linear in the counted work.
//
//	(a) the call returns: the meter ceiling 64·B + 10^4 is never reached, no panic
//	(b) W = dispatches + Roll calls <= 8·B + 1000
//	(c) success => NumOpCount <= B and W <= 5·NumOpCount + 16
//	(d) with u = NumOpCount on success, B on error: no string reachable from Ret/Attrs longer than
//	    16384·(u+1) + len(src), no array longer than 1024·(u+1) + 1000
//
// The constants are generous on purpose: one counted unit may do a bounded amount of work
// (Fate's four dice, CoC's extra D100, 512-element ranges/repeats, one toStr of a 512-element
// array of the longest chargeable string); what they reject is growth by powers of two.
func budgetOracles(c Case, s *rt.Section, src string, o outcome) *rt.Failure {
	B := budgetOf(c.Cfg)
	tag := "/" + c.Fam
	if c.Fam == "" {
		tag = "/src"
	}
	if o.ceiling {
		return s.NewFailure("bounded-work", "budget:unbounded-work"+tag, c,
			fmt.Sprintf("still running after %d dispatches and %d rolls (OpCountLimit %d, NumOpCount %d)", o.ops, o.rolls, B, o.cnt),
			fmt.Sprintf("returns within 64·B+10^4 = %d metered steps", 64*B+10_000))
	}
	if o.pi != nil {
		return s.NewFailure("no-panic", o.pi.Sig(), c, o.pi.Value+"\n"+clip(o.pi.Stack, 1500), "an error or a value")
	}
	if W := o.W(); W > 8*B+1000 {
		return s.NewFailure("work-proportional", "budget:work-exceeds-8B"+tag, c,
			fmt.Sprintf("%d dispatches + %d rolls = %d under OpCountLimit %d (NumOpCount %d, outcome %s)", o.ops, o.rolls, W, B, o.cnt, o),
			fmt.Sprintf("W <= 8·B+1000 = %d", 8*B+1000))
	}
	u := B
	if o.err == nil {
		if o.cnt > B {
			return s.NewFailure("limit-is-error", "budget:count-exceeds-limit-without-error"+tag, c,
				fmt.Sprintf("Run succeeded with NumOpCount %d > OpCountLimit %d", o.cnt, B), "an error once the budget is exceeded")
		}
		if W := o.W(); W > 5*o.cnt+16 && !usesRandMethods(src) {
			return s.NewFailure("counter-accounts", "budget:uncounted-work"+tag, c,
				fmt.Sprintf("%d dispatches + %d rolls = %d but NumOpCount %d", o.ops, o.rolls, W, o.cnt),
				"W <= 5·NumOpCount+16: every instruction and every die is counted")
		}
		u = o.cnt
	}
	z := &sizes{}
	seen := map[any]bool{}
	if o.err == nil && o.vm.Ret != nil {
		measure(o.vm.Ret, z, seen, 0)
	}
	if o.vm.Attrs != nil {
		measureMap(o.vm.Attrs, z, seen, 0)
	}
	if lim := 16384*(u+1) + int64(len(src)); int64(z.maxStr) > lim {
		return s.NewFailure("size-linear", "size:string"+tag, c,
			fmt.Sprintf("a string of %d bytes is reachable from the result/variables after %d counted operations (OpCountLimit %d, %s)", z.maxStr, o.cnt, B, errWord(o)),
			fmt.Sprintf("<= 16384·(u+1)+len(src) = %d", lim))
	}
	if lim := 1024*(u+1) + 1000; int64(z.maxArr) > lim {
		return s.NewFailure("size-linear", "size:array"+tag, c,
			fmt.Sprintf("an array of %d elements is reachable from the result/variables after %d counted operations (OpCountLimit %d, %s)", z.maxArr, o.cnt, B, errWord(o)),
			fmt.Sprintf("<= 1024·(u+1)+1000 = %d", lim))
	}
	return nil
}

func errWord(o outcome) string {
	if o.err != nil {
		return "error"
	}
	return "success"
}

func isBudgetErr(err error) bool {
	return err != nil && (strings.Contains(err.Error(), "算力上限") || strings.Contains(err.Error(), "budget"))
}

// ---------------------------------------------------------------------------
// closed-form families (capacity section)

const (
	capCode  = 8192 // instructions per code block (parser.go checkStackOverflow)
	capStack = 1000 // operand stack slots (rollvm.go evaluate)
	capNest  = 20   // block / template nesting (rollvm.go blockStack, fstrBlockStack)
	capLen   = 512  // range / concat / repeat
)

type family struct {
	name string
	// cap: the value of n at which the capacity named by what is crossed (0: depends on the budget)
	cap  int
	what string // code | stack | nest | len | budget | depth
	// hi: largest n drawn in the quick tier; hiT: thorough
	hi, hiT int
	build   func(n, m int) (src string, want func(v *ds.VMValue) string)
	needs   func(cfg *vmx.Cfg) // configuration the family needs (mode, dice families)
}

func rep(s string, n int) string { return strings.Repeat(s, n) }

func sumOf(n int) string {
	if n <= 0 {
		return "0"
	}
	return strings.TrimSuffix(rep("1+", n), "+")
}

func wantInt(n int64) func(v *ds.VMValue) string {
	return func(v *ds.VMValue) string {
		if i, ok := v.ReadInt(); ok && int64(i) == n {
			return ""
		}
		return "int " + strconv.FormatInt(n, 10)
	}
}

func wantStr(x string) func(v *ds.VMValue) string {
	return func(v *ds.VMValue) string {
		if s, ok := v.ReadString(); ok && s == x {
			return ""
		}
		return "string " + clip(strconv.Quote(x), 80) + fmt.Sprintf(" (len %d)", len(x))
	}
}

// wantNested: an array nested n deep around the integer 7
func wantNested(n int) func(v *ds.VMValue) string {
	return func(v *ds.VMValue) string {
		cur := v
		for i := 0; i < n; i++ {
			ad, ok := cur.ReadArray()
			if !ok || len(ad.List) != 1 {
				return fmt.Sprintf("a one-element array at depth %d of %d", i, n)
			}
			cur = ad.List[0]
		}
		if i, ok := cur.ReadInt(); !ok || i != 7 {
			return fmt.Sprintf("7 inside %d arrays", n)
		}
		return ""
	}
}

func modeOf(m int) string { return []string{"", "min", "max"}[((m%3)+3)%3] }

var families = []family{
	{name: "sum", cap: capCode / 2, what: "code", hi: 6000, hiT: 20000, build: func(n, m int) (string, func(*ds.VMValue) string) {
		return sumOf(n), wantInt(int64(n))
	}},
	{name: "andchain", cap: capCode / 2, what: "code", hi: 6000, hiT: 12000, build: func(n, m int) (string, func(*ds.VMValue) string) {
		return rep("1&&", n) + "5", wantInt(5)
	}},
	{name: "orchain", cap: capCode / 4, what: "code", hi: 3200, hiT: 8000, build: func(n, m int) (string, func(*ds.VMValue) string) {
		return rep("0||", n) + "5", wantInt(5)
	}},
	{name: "ternchain", cap: capCode / 5, what: "code", hi: 2600, hiT: 6000, build: func(n, m int) (string, func(*ds.VMValue) string) {
		return rep("0 ? 1, ", n) + "1 ? 5", wantInt(5)
	}},
	{name: "elif", cap: capCode / 6, what: "code", hi: 2200, hiT: 5000, build: func(n, m int) (string, func(*ds.VMValue) string) {
		return "if 0 {x=1}" + rep(" else if 0 {x=1}", n) + " else {x=5}; x", wantInt(5)
	}},
	{name: "ifbody", cap: capCode / 2, what: "code", hi: 6000, hiT: 12000, build: func(n, m int) (string, func(*ds.VMValue) string) {
		return "x=0; if 1 { x = " + sumOf(n) + " }; x", wantInt(int64(n))
	}},
	{name: "ifskip", cap: capCode / 2, what: "code", hi: 6000, hiT: 12000, build: func(n, m int) (string, func(*ds.VMValue) string) {
		return "x=0; if 0 { x = " + sumOf(n) + " } else { x = 5 }; x", wantInt(5)
	}},
	{name: "whilebody", cap: capCode / 2, what: "code", hi: 6000, hiT: 12000, build: func(n, m int) (string, func(*ds.VMValue) string) {
		return "i=0; x=0; while i<1 { i=i+1; x = " + sumOf(n) + " }; x", wantInt(int64(n))
	}},
	{name: "funcbody", cap: capCode / 2, what: "code", hi: 6000, hiT: 12000, build: func(n, m int) (string, func(*ds.VMValue) string) {
		return "func g() { return " + sumOf(n) + " }; g()", wantInt(int64(n))
	}},
	{name: "compbody", cap: capCode / 2, what: "code", hi: 6000, hiT: 12000, build: func(n, m int) (string, func(*ds.VMValue) string) {
		return "&c = " + sumOf(n) + "; c", wantInt(int64(n))
	}},
	{name: "strcat", cap: capCode / 2, what: "code", hi: 6000, hiT: 12000, build: func(n, m int) (string, func(*ds.VMValue) string) {
		if n < 1 {
			n = 1
		}
		return strings.TrimSuffix(rep("'a'+", n), "+"), wantStr(rep("a", n))
	}},
	{name: "list", cap: capStack, what: "stack", hi: 2500, hiT: 9000, build: func(n, m int) (string, func(*ds.VMValue) string) {
		return "[" + strings.TrimSuffix(rep("1,", n), ",") + "].len()", wantInt(int64(n))
	}},
	{name: "listsum", cap: capStack, what: "stack", hi: 2500, hiT: 9000, build: func(n, m int) (string, func(*ds.VMValue) string) {
		return "[" + strings.TrimSuffix(rep("1,", n), ",") + "].sum()", wantInt(int64(n))
	}},
	{name: "dictlit", cap: capStack / 2, what: "stack", hi: 1300, hiT: 5000, build: func(n, m int) (string, func(*ds.VMValue) string) {
		var sb strings.Builder
		sb.WriteString("{")
		for i := 0; i < n; i++ {
			if i > 0 {
				sb.WriteString(",")
			}
			fmt.Fprintf(&sb, "'k%d':1", i)
		}
		sb.WriteString("}.len()")
		return sb.String(), wantInt(int64(n))
	}},
	{name: "stmts", cap: capStack, what: "stack", hi: 2500, hiT: 5000, build: func(n, m int) (string, func(*ds.VMValue) string) {
		return "x=0;" + rep("x=x+1;", n) + "x", wantInt(int64(n))
	}},
	{name: "tmplparts", cap: capStack, what: "stack", hi: 2500, hiT: 5000, build: func(n, m int) (string, func(*ds.VMValue) string) {
		return "`" + rep("{1}", n) + "`", wantStr(rep("1", n))
	}},
	{name: "args", cap: capStack, what: "stack", hi: 1500, hiT: 3000, build: func(n, m int) (string, func(*ds.VMValue) string) {
		// a function of n parameters called with n arguments returns its last one
		if n < 1 {
			n = 1
		}
		ps := make([]string, n)
		as := make([]string, n)
		for i := range ps {
			ps[i] = "v" + strconv.Itoa(i)
			as[i] = strconv.Itoa(i + 1)
		}
		return "func g(" + strings.Join(ps, ",") + ") { return v" + strconv.Itoa(n-1) + " }; g(" + strings.Join(as, ",") + ")", wantInt(int64(n))
	}},
	{name: "pushloop", cap: capStack / 2, what: "stack", hi: 1300, hiT: 3000, build: func(n, m int) (string, func(*ds.VMValue) string) {
		return fmt.Sprintf("x=[]; i=0; while i<%d { x.push(i); i=i+1 }; x.len()", n), wantInt(int64(n))
	}},
	{name: "nestif", cap: capNest, what: "nest", hi: 60, hiT: 400, build: func(n, m int) (string, func(*ds.VMValue) string) {
		return "x=0; " + rep("if 1 { ", n) + "x=7" + rep(" }", n) + "; x", wantInt(7)
	}},
	{name: "nesttmpl", cap: capNest, what: "nest", hi: 60, hiT: 400, build: func(n, m int) (string, func(*ds.VMValue) string) {
		return rep("`{", n) + "7" + rep("}`", n), func(v *ds.VMValue) string {
			if n == 0 {
				return wantInt(7)(v)
			}
			return wantStr("7")(v)
		}
	}},
	{name: "nesthole", cap: capNest, what: "nest", hi: 60, hiT: 400, build: func(n, m int) (string, func(*ds.VMValue) string) {
		return "x=0; " + rep("`{% if 1 { y = ", n) + "`{% x=7 %}`" + rep(" } %}`", n) + "; x", wantInt(7)
	}},
	{name: "nestwhile", cap: capNest, what: "nest", hi: 60, hiT: 300, build: func(n, m int) (string, func(*ds.VMValue) string) {
		var sb strings.Builder
		sb.WriteString("x=0; ")
		for i := 0; i < n; i++ {
			fmt.Fprintf(&sb, "i%d=0; while i%d<1 { i%d=i%d+1; ", i, i, i, i)
		}
		sb.WriteString("x=7")
		sb.WriteString(rep(" }", n))
		sb.WriteString("; x")
		return sb.String(), wantInt(7)
	}},
	{name: "nestfunc", cap: 0, what: "budget", hi: 0, hiT: 0, build: func(n, m int) (string, func(*ds.VMValue) string) {
		var sb strings.Builder
		for i := 0; i < n; i++ {
			fmt.Fprintf(&sb, "func g%d() { ", i)
		}
		sb.WriteString("return 7")
		for i := n - 1; i >= 0; i-- {
			fmt.Fprintf(&sb, " }; return g%d()", i)
		}
		if n == 0 {
			return "7", wantInt(7)
		}
		// the outermost "return g0()" is a plain call at top level
		s := sb.String()
		s = strings.TrimSuffix(s, "return g0()") + "g0()"
		return s, wantInt(7)
	}},
	{name: "range", cap: capLen, what: "len", hi: 1300, hiT: 100000, build: func(n, m int) (string, func(*ds.VMValue) string) {
		if n < 1 {
			n = 1
		}
		lo := m % 7
		if m%2 == 0 {
			return fmt.Sprintf("[%d..%d].len()", lo, lo+n-1), wantInt(int64(n))
		}
		return fmt.Sprintf("[%d..%d].len()", lo+n-1, lo), wantInt(int64(n))
	}},
	{name: "repeat", cap: capLen, what: "len", hi: 1300, hiT: 100000, build: func(n, m int) (string, func(*ds.VMValue) string) {
		w := 1 + m%4 // elements of the repeated array
		t := n / w
		if m%2 == 0 {
			return fmt.Sprintf("(%s*%d).len()", "["+strings.TrimSuffix(rep("1,", w), ",")+"]", t), wantInt(int64(w * t))
		}
		return fmt.Sprintf("(%d*%s).len()", t, "["+strings.TrimSuffix(rep("1,", w), ",")+"]"), wantInt(int64(w * t))
	}},
	// a repetition count so large that len*count wraps around 2^64 into 0..520: never a (short) array, always an error
	{name: "repeat-wrap", cap: capLen, what: "len", hi: 1300, hiT: 3000, build: func(n, m int) (string, func(*ds.VMValue) string) {
		w := uint64(3 + m%6) // elements of the repeated array (3..8: the count then fits an int64)
		r := uint64(n % 521) // where the wrapped product lands
		// count = ceil((2^64 + r) / w)
		q, rem := bits.Div64(1, r, w) // (2^64 + r) / w, r < w*… : hi word 1 < w
		if rem != 0 {
			q++
		}
		arr := "[" + strings.TrimSuffix(rep("1,", int(w)), ",") + "]"
		never := func(v *ds.VMValue) string {
			return fmt.Sprintf("an error: %d elements repeated %d times is not an array of at most 512 elements", w, q)
		}
		if m%2 == 0 {
			return fmt.Sprintf("(%s*%d).len()", arr, q), never
		}
		return fmt.Sprintf("x = %d*%s; x", q, arr), never
	}},
	{name: "concat", cap: capLen, what: "len", hi: 1300, hiT: 3000, build: func(n, m int) (string, func(*ds.VMValue) string) {
		if n < 2 {
			n = 2
		}
		a := 1 + m%(n-1)
		if a > capLen {
			a = capLen
		}
		b := n - a
		if b > capLen {
			b = capLen
		}
		if b < 1 {
			b = 1
		}
		return fmt.Sprintf("([1..%d]+[1..%d]).len()", a, b), wantInt(int64(a + b))
	}},
	{name: "sliceins", cap: capLen, what: "len", hi: 1300, hiT: 3000, build: func(n, m int) (string, func(*ds.VMValue) string) {
		// insert b elements into an array of a by slice assignment
		if n < 2 {
			n = 2
		}
		a := 1 + m%(n-1)
		if a > capLen {
			a = capLen
		}
		b := n - a
		if b > capLen {
			b = capLen
		}
		if b < 1 {
			b = 1
		}
		return fmt.Sprintf("x=[1..%d]; x[0:0]=[1..%d]; x.len()", a, b), wantInt(int64(a + b))
	}},
	{name: "dice1", cap: 0, what: "budget", hi: 0, hiT: 0, build: func(n, m int) (string, func(*ds.VMValue) string) {
		return fmt.Sprintf("%dd1", n), wantInt(int64(n))
	}},
	{name: "dicemode", cap: 0, what: "budget", hi: 0, hiT: 0,
		needs: func(cfg *vmx.Cfg) {
			if cfg.Mode == "" {
				cfg.Mode = "min"
			}
		},
		build: func(n, m int) (string, func(*ds.VMValue) string) {
			// checked against the mode in wantDiceMode (set by the caller through m)
			return fmt.Sprintf("%dd6", n), nil
		}},
	{name: "wodpool", cap: 20000, what: "len", hi: 26000, hiT: 60000,
		needs: func(cfg *vmx.Cfg) { cfg.WoD = true; cfg.Mode = "max" },
		build: func(n, m int) (string, func(*ds.VMValue) string) {
			// max mode: every die shows 10 >= 8, no extra rounds: n successes
			return fmt.Sprintf("%da11m10", n), wantInt(int64(n))
		}},
	{name: "dcpool", cap: 20000, what: "len", hi: 26000, hiT: 60000,
		needs: func(cfg *vmx.Cfg) { cfg.DC = true; cfg.Mode = "min" },
		build: func(n, m int) (string, func(*ds.VMValue) string) {
			// min mode: every die shows 1, no critical: the result is 1
			return fmt.Sprintf("%dc11m10", n), wantInt(1)
		}},
	{name: "cocbonus", cap: 0, what: "budget", hi: 0, hiT: 0,
		needs: func(cfg *vmx.Cfg) { cfg.CoC = true; cfg.Mode = "max" },
		build: func(n, m int) (string, func(*ds.VMValue) string) {
			// max mode: D100 = 100 and every bonus die shows 10 ("0"): units 0, tens stay 10 -> 100
			return fmt.Sprintf("b%d", n), wantInt(100)
		}},
	{name: "recur", cap: 0, what: "budget", hi: 0, hiT: 0, build: func(n, m int) (string, func(*ds.VMValue) string) {
		return fmt.Sprintf("func g(n){ if n<=0 { return 0 }; return 1+g(n-1) }; g(%d)", n), wantInt(int64(n))
	}},
	{name: "comprecur", cap: 0, what: "budget", hi: 0, hiT: 0, build: func(n, m int) (string, func(*ds.VMValue) string) {
		return fmt.Sprintf("n=%d; &c = n <= 0 ? 0 : (n = n - 1) * 0 + 1 + c; c", n), wantInt(int64(n))
	}},
	{name: "loop", cap: 0, what: "budget", hi: 0, hiT: 0, build: func(n, m int) (string, func(*ds.VMValue) string) {
		return fmt.Sprintf("i=0; while i<%d { i=i+1 }; i", n), wantInt(int64(n))
	}},
	// parser recursion depth (no capacity is built in: the Go stack is the limit)
	{name: "paren", cap: 0, what: "depth", hi: 3000, hiT: 5000, build: func(n, m int) (string, func(*ds.VMValue) string) {
		return rep("(", n) + "7" + rep(")", n), wantInt(7)
	}},
	{name: "nestarr", cap: 0, what: "depth", hi: 900, hiT: 1500, build: func(n, m int) (string, func(*ds.VMValue) string) {
		return rep("[", n) + "7" + rep("]", n), wantNested(n)
	}},
	{name: "nestcall", cap: 0, what: "depth", hi: 900, hiT: 1500, build: func(n, m int) (string, func(*ds.VMValue) string) {
		return rep("abs(", n) + "7" + rep(")", n), wantInt(7)
	}},
	{name: "nestdict", cap: 0, what: "depth", hi: 600, hiT: 1200, build: func(n, m int) (string, func(*ds.VMValue) string) {
		return rep("{'a':", n) + "7" + rep("}", n) + rep(".a", n), wantInt(7)
	}},
	{name: "openarr", cap: 0, what: "depth", hi: 900, hiT: 1500, build: func(n, m int) (string, func(*ds.VMValue) string) {
		// never closed: a syntax error whatever n is
		return rep("[", n+1), func(v *ds.VMValue) string { return "a syntax error" }
	}},
}

func familyNames() []string {
	out := make([]string, len(families))
	for i := range families {
		out[i] = families[i].name
	}
	return out
}

func advNames() []string {
	out := make([]string, len(advFamilies))
	for i := range advFamilies {
		out[i] = advFamilies[i].name
	}
	return out
}

func familyByName(name string) *family {
	for i := range families {
		if families[i].name == name {
			return &families[i]
		}
	}
	return nil
}

// wantFor returns the closed-form check of a family case (dicemode depends on the mode).
func wantFor(c Case) (src string, want func(v *ds.VMValue) string, ok bool) {
	f := familyByName(c.Fam)
	if f == nil {
		return "", nil, false
	}
	src, want = f.build(c.N, c.M)
	if c.Fam == "dicemode" {
		switch c.Cfg.Mode {
		case "min":
			want = wantInt(int64(c.N))
		case "max":
			want = wantInt(6 * int64(c.N))
		default:
			n := int64(c.N)
			want = func(v *ds.VMValue) string {
				if i, ok := v.ReadInt(); ok && int64(i) >= n && int64(i) <= 6*n {
					return ""
				}
				return fmt.Sprintf("an int in [%d,%d]", n, 6*n)
			}
		}
	}
	return src, want, true
}

func checkCapacity(c Case, s *rt.Section) *rt.Failure {
	src, want, ok := wantFor(c)
	if !ok {
		return s.NewFailure("replay", "replay:unknown-family", c, c.Fam, "a known family")
	}
	o := execute(c.Cfg, src)
	if f := budgetOracles(c, s, src, o); f != nil {
		return f
	}
	if o.err != nil {
		return nil
	}
	if strings.TrimSpace(o.vm.RestInput) != "" {
		// the closed form belongs to the whole text; a partly consumed text is another program
		return s.NewFailure("closed-form", "capacity:partly-consumed/"+c.Fam, c,
			fmt.Sprintf("source of %d bytes accepted with %d bytes left over, result %s", len(src), len(o.vm.RestInput), clip(vmx.Repr(o.vm.Ret), 120)),
			"the whole program is evaluated, or an error")
	}
	if msg := want(o.vm.Ret); msg != "" {
		sig := "capacity:wrong-value/" + c.Fam
		if len(o.vm.VerifCode()) >= capCode || bodyAtCap(o.vm) {
			sig = "trunc:code-cap-8192"
		}
		return s.NewFailure("closed-form", sig, c,
			fmt.Sprintf("%s (n=%d, %d bytes of source, %d instructions compiled, NumOpCount %d) evaluates to %s", c.Fam, c.N, len(src), len(o.vm.VerifCode()), o.cnt, clip(vmx.Repr(o.vm.Ret), 200)),
			msg+", or an error")
	}
	return nil
}

// bodyAtCap: some function/computed body reachable from the variables or the main code is at the cap
func bodyAtCap(vm *ds.Context) bool {
	hit := false
	for _, op := range vm.VerifCode() {
		if v, ok := op.Arg.(*ds.VMValue); ok {
			if code, ok := ds.VerifBodyCode(v); ok && len(code) >= capCode {
				hit = true
			}
		}
	}
	return hit
}

// ---------------------------------------------------------------------------
// pad section

const padMarker = 424242

func padSrc(terms int, prog string) string {
	// value 424242·0·(1+…+1) = 0 — no variables, no dice, one value left on the stack
	return strconv.Itoa(padMarker) + "*0*(" + sumOf(terms) + "); " + prog
}

func checkPad(c Case, s *rt.Section) *rt.Failure {
	o1 := execute(c.Cfg, c.Src)
	if f := budgetOracles(c, s, c.Src, o1); f != nil {
		return f
	}
	src2 := padSrc(c.Pad, c.Src)
	o2 := execute(c.Cfg, src2)
	if f := budgetOracles(c, s, src2, o2); f != nil {
		return f
	}
	if o2.err != nil {
		return nil // rejected: fails closed
	}
	if o1.err != nil {
		return s.NewFailure("pad", "pad:error-vanishes", c,
			fmt.Sprintf("P alone: %s; behind a %d-term padding statement: %s", o1, c.Pad, o2), "the same error, or the capacity error")
	}
	r1, r2 := vmx.Repr(o1.vm.Ret), vmx.Repr(o2.vm.Ret)
	a1, a2 := vmx.AttrsRepr(o1.vm), vmx.AttrsRepr(o2.vm)
	rest1, rest2 := o1.vm.RestInput, o2.vm.RestInput
	if r1 != r2 || a1 != a2 || rest1 != rest2 {
		sig := "pad:differs"
		if len(o2.vm.VerifCode()) >= capCode {
			sig = "trunc:code-cap-8192"
		}
		return s.NewFailure("pad", sig, c,
			fmt.Sprintf("P alone: ret=%s vars=%s rest=%q; behind a %d-term padding statement (%d instructions compiled): ret=%s vars=%s rest=%q",
				clip(r1, 300), clip(a1, 300), clip(rest1, 60), c.Pad, len(o2.vm.VerifCode()), clip(r2, 300), clip(a2, 300), clip(rest2, 60)),
			"the same result and variables, or an error")
	}
	return nil
}

// ---------------------------------------------------------------------------
// budget section: adversarial families

type advFamily struct {
	name  string
	build func(n, m, k int) string
	// switch that keeps the family away from an open finding (n is clamped by clampAvoided)
	avoid string
}

var bigs = []string{"30000", "30001", "100000", "100000000", "4611686018427387904", "9223372036854775807", "99999999999999999999"}

func big(i int) string { return bigs[((i%len(bigs))+len(bigs))%len(bigs)] }

var advFamilies = []advFamily{
	{name: "dice", build: func(n, m, k int) string { return fmt.Sprintf("%dd%d", n, 1+m) }},
	{name: "dice-big", build: func(n, m, k int) string { return fmt.Sprintf("%sd%s", big(n), big(m)) }},
	{name: "dice-keep", build: func(n, m, k int) string {
		return fmt.Sprintf("%dd%d%s%d", n, 1+m, []string{"k", "q", "kh", "kl", "dh", "dl"}[k%6], 1+k%5)
	}},
	{name: "dice-sum", build: func(n, m, k int) string {
		return strings.TrimSuffix(rep(fmt.Sprintf("%dd%d+", n, 1+m), 1+k%6), "+")
	}},
	{name: "dice-loop", build: func(n, m, k int) string { return fmt.Sprintf("while 1 { x = %dd%d }", n, 1+m) }},
	{name: "wod", build: func(n, m, k int) string {
		return fmt.Sprintf("%da%dm%s", 1+n%20000, 2+k%4, big(m))
	}},
	{name: "wod-kq", build: func(n, m, k int) string {
		return fmt.Sprintf("%da%dm%s%s%d", 1+n%300, 2+k%3, big(m), []string{"k", "q"}[k%2], 1+m%9)
	}},
	{name: "wod-pool", build: func(n, m, k int) string { return fmt.Sprintf("%sa%d", big(n), 2+k%9) }},
	{name: "wod-loop", build: func(n, m, k int) string { return fmt.Sprintf("while 1 { x = %da%dm%s }", 1+n%50, 2+k%4, big(m)) }},
	{name: "dc", build: func(n, m, k int) string { return fmt.Sprintf("%dc%dm%s", 1+n%20000, 2+k%4, big(m)) }},
	{name: "dc-pool", build: func(n, m, k int) string { return fmt.Sprintf("%sc%d", big(n), 2+k%9) }},
	{name: "coc", build: func(n, m, k int) string { return fmt.Sprintf("%s%d", []string{"b", "p"}[k%2], n) }},
	{name: "coc-big", build: func(n, m, k int) string { return fmt.Sprintf("%s%s", []string{"b", "p"}[k%2], big(n)) }},
	{name: "fate-sum", build: func(n, m, k int) string { return strings.TrimSuffix(rep("f+", 1+n%400), "+") }},
	{name: "fate-loop", build: func(n, m, k int) string { return "while 1 { x = f }" }},
	{name: "recursion", build: func(n, m, k int) string { return "func g(n){ g(n+1) }; g(0)" }},
	{name: "recursion-fat", build: func(n, m, k int) string {
		return fmt.Sprintf("func g(n){ x = [1..%d]; y = x + x; g(n+1) }; g(0)", 1+n%256)
	}},
	{name: "recursion-2", build: func(n, m, k int) string { return "func g(n){ h(n+1) }; func h(n){ g(n+1) }; g(0)" }},
	{name: "recursion-tree", build: func(n, m, k int) string { return "func g(n){ g(n+1) + g(n+1) }; g(0)" }},
	{name: "computed-self", build: func(n, m, k int) string { return "&u = u + 1; u" }},
	{name: "computed-mutual", build: func(n, m, k int) string { return "&u = v + 1; &v = u + 1; u" }},
	{name: "computed-attr", build: func(n, m, k int) string { return "&u = this.n + u; &u.n = 1; u" }},
	// a computed value that belongs to an enclosing scope is evaluated on behalf of a function
	{name: "outer-computed", avoid: "outer_computed", build: func(n, m, k int) string {
		switch k % 8 {
		case 4: // read from two scopes below the owner, one read per call
			return fmt.Sprintf("&u = %dd6; func g(){ return u }; func h(){ return g() }; x = 0; while 1 { x = h() }", 1+n)
		case 5: // three scopes below
			return fmt.Sprintf("&u = %dd6; func g(){ return u }; func h(){ return g() }; func j(){ return h() }; x = 0; while 1 { x = x + j() }", 1+n)
		case 6: // a chain of computed values read from two scopes below
			return fmt.Sprintf("&u = %dd6; &v = u + 1; func g(){ return v }; func h(){ y = g(); return y }; x = 0; while 1 { x = h() }", 1+n)
		case 7: // a bounded number of reads: the run may succeed, the counter has to account for the dice
			return fmt.Sprintf("&u = %dd1; func g(){ return u }; func h(){ return g() }; s = 0; i = 0; while i < %d { s = s + h(); i = i + 1 }; s", 1+n, 1+m%60)
		case 0:
			return fmt.Sprintf("&u = %dd6; func g(){ x = u }; while 1 { g() }", 1+n)
		case 1:
			return fmt.Sprintf("&u = %dd6; func g(){ i = 0; while i < %d { x = u; i = i + 1 } }; while 1 { g() }", 1+n, 1+m%200)
		case 2:
			return fmt.Sprintf("&u = %dd6; &v = u + u; &w = v + v; while 1 { x = w }", 1+n)
		}
		return fmt.Sprintf("&u = %dd6; func g(){ return u }; func h(){ return g() + g() }; x = 0; while 1 { x = h() }", 1+n)
	}},
	{name: "computed-loop", build: func(n, m, k int) string { return fmt.Sprintf("&u = %dd6; while 1 { x = u }", 1+n%50) }},
	{name: "while-empty", build: func(n, m, k int) string { return "while 1 { }" }},
	{name: "while-assign", build: func(n, m, k int) string { return "x = 0; while 1 { x = x + 1 }" }},
	{name: "while-continue", build: func(n, m, k int) string { return "while 1 { continue }" }},
	{name: "while-if-continue", build: func(n, m, k int) string { return "i = 0; while 1 { i = i + 1; if 1 { continue } }" }},
	{name: "while-nested", build: func(n, m, k int) string {
		return fmt.Sprintf("i=0; while i<%d { i=i+1; j=0; while j<%d { j=j+1 } }", n, 1+m)
	}},
	{name: "while-call", build: func(n, m, k int) string { return "func g(){ 1 }; while 1 { g() }" }},
	{name: "while-tmpl", build: func(n, m, k int) string { return "x = 'ab'; while 1 { x = `{x}{x}` }" }},
	{name: "str-double", build: func(n, m, k int) string {
		return fmt.Sprintf("x='%s'; i=0; while i<%d { x=x+x; i=i+1 }; x", rep("a", 1+m%40), n%64)
	}},
	{name: "str-double-forever", build: func(n, m, k int) string { return "x='aaaaaaaa'; while 1 { x = x + x }" }},
	{name: "tmpl-double", build: func(n, m, k int) string {
		return fmt.Sprintf("x='%s'; i=0; while i<%d { x=`{x}{x}`; i=i+1 }; x", rep("a", 1+m%40), n%64)
	}},
	{name: "arr-double", build: func(n, m, k int) string {
		return fmt.Sprintf("x=[1]; i=0; while i<%d { x=x+x; i=i+1 }; x.len()", n%64)
	}},
	{name: "arr-repeat", build: func(n, m, k int) string {
		return fmt.Sprintf("x=[1]; i=0; while i<%d { x=x*%d; i=i+1 }; x.len()", n%64, 2+m%600)
	}},
	{name: "arr-nest-double", build: func(n, m, k int) string {
		return fmt.Sprintf("x=[1]; i=0; while i<%d { x=[x,x]; i=i+1 }; toStr(x)", n%200)
	}},
	{name: "arr-push-forever", build: func(n, m, k int) string { return "x=[]; while 1 { x.push(1) }" }},
	{name: "arr-push-self", build: func(n, m, k int) string { return "x=[]; x.push(x); toStr(x) + repr(x)" }},
	{name: "dict-self", build: func(n, m, k int) string { return "x={}; x.a=x; toStr(x)" }},
	{name: "dict-grow", build: func(n, m, k int) string { return "x={}; i=0; while 1 { x[i] = i; i = i + 1 }" }},
	{name: "range-loop", build: func(n, m, k int) string { return "while 1 { x = [1..512] }" }},
	{name: "range-big", build: func(n, m, k int) string {
		N := []int{513, 100000, 1000000, 3000000}[k%4]
		if k%8 >= 4 {
			return fmt.Sprintf("x = [%d..%d]; x.len()", N+m, m)
		}
		return fmt.Sprintf("x = [%d..%d]; x.len()", m, N+m)
	}},
	{name: "repeat-big", build: func(n, m, k int) string {
		N := []int{513, 100000, 1000000, 3000000}[k%4]
		return fmt.Sprintf("x = [1..%d] * %d; x.len()", 1+m%8, N)
	}},
	{name: "func-dice-loop", build: func(n, m, k int) string {
		return fmt.Sprintf("func g(){ x = %dd6 }; while 1 { g() }", 1+n)
	}},
	{name: "func-loop-loop", build: func(n, m, k int) string {
		return fmt.Sprintf("func g(){ i = 0; while i < %d { i = i + 1 } }; while 1 { g() }", 1+n%400)
	}},
	{name: "kh-loop", build: func(n, m, k int) string { return "x = [1..512]; while 1 { y = x.kh(500) }" }},
	// a huge count handed to a method or operator that works on a small container: the work follows the container
	{name: "method-big-arg", build: func(n, m, k int) string {
		arr := []string{"[1.5, 2]", "[1, 2]", "[2, 1.5, 3]", "[1..5]", "[0.5]", "[]", "['a', 1.5]"}[m%7]
		N := big(n)
		switch k % 12 {
		case 0:
			return fmt.Sprintf("%s.kh(%s)", arr, N)
		case 1:
			return fmt.Sprintf("%s.kl(%s)", arr, N)
		case 2:
			return fmt.Sprintf("%s.randSize(%s)", arr, N)
		case 3:
			return fmt.Sprintf("%s * %s", arr, N)
		case 4:
			return fmt.Sprintf("'ab' * %s", N)
		case 5:
			return fmt.Sprintf("x = %s; x[0:%s]", arr, N)
		case 6:
			return fmt.Sprintf("x = %s; x[-%s:%s]", arr, N, N)
		case 7:
			return fmt.Sprintf("x = %s; x.kh(%s) + x.kl(%s)", arr, N, N)
		case 8:
			return fmt.Sprintf("x = %s; i = 0; while i < 3 { y = x.kh(%s); i = i + 1 }; y", arr, N)
		case 9:
			return fmt.Sprintf("%s.kh(-%s)", arr, N)
		case 10:
			return fmt.Sprintf("x = %s; x[0:%s] = [1]; x", arr, N)
		}
		return fmt.Sprintf("'abc'[0:%s]", N)
	}},
	// prototype chains with a cycle that the dict being read is not part of: a missing attribute walks the chain
	{name: "proto-cycle", build: func(n, m, k int) string {
		cyc := 1 + n%4 // dicts on the cycle
		lead := m % 4  // dicts between the one that is read and the cycle
		var sb strings.Builder
		for i := 0; i < cyc; i++ {
			fmt.Fprintf(&sb, "c%d = {'v%d': %d}; ", i, i, i)
		}
		for i := 0; i < cyc; i++ {
			fmt.Fprintf(&sb, "c%d.__proto__ = c%d; ", i, (i+1)%cyc)
		}
		prev := "c0"
		for i := 0; i < lead; i++ {
			fmt.Fprintf(&sb, "l%d = {'__proto__': %s}; ", i, prev)
			prev = fmt.Sprintf("l%d", i)
		}
		fmt.Fprintf(&sb, "a = {'__proto__': %s}; ", prev)
		return sb.String() + []string{"a.foo", "a.v0", "a.foo()", "a['foo']", "x = a.foo ?? 1; x", "a.foo = 1; a.foo", "dir(a)", "a.len()", "[a.foo, a.bar]",
			"i = 0; while i < 3 { y = a.foo; i = i + 1 }; y"}[k%10]
	}},
	// each round turns a string into 512 copies of itself through toStr/repr of an array
	{name: "tostr-rounds", avoid: "tostr_growth", build: func(n, m, k int) string {
		fn := []string{"toStr", "repr"}[k%2]
		return fmt.Sprintf("s='%s'; i=0; while i<%d { x=[s]*512; s=%s(x); i=i+1 }; 1", rep("a", 16), n, fn)
	}},
	// each round doubles an array through a slice assignment
	{name: "slice-double", avoid: "slice_growth", build: func(n, m, k int) string {
		return fmt.Sprintf("x=[1..%d]; i=0; while i<%d { x[0:0] = x; i=i+1 }; x.len()", 1+m%512, n)
	}},
	{name: "slice-insert", build: func(n, m, k int) string {
		return fmt.Sprintf("y=[1..512]; x=[1]; i=0; while i<%d { x[0:0] = y; i=i+1 }; x.len()", n)
	}},
}

func advByName(name string) *advFamily {
	for i := range advFamilies {
		if advFamilies[i].name == name {
			return &advFamilies[i]
		}
	}
	return nil
}

func budgetSrc(c Case) (string, bool) {
	if c.Fam == "" {
		return c.Src, true
	}
	f := advByName(c.Fam)
	if f == nil {
		return "", false
	}
	return f.build(c.N, c.M, c.K), true
}

func checkBudget(c Case, s *rt.Section) *rt.Failure {
	src, ok := budgetSrc(c)
	if !ok {
		return s.NewFailure("replay", "replay:unknown-family", c, c.Fam, "a known family")
	}
	o := execute(c.Cfg, src)
	return budgetOracles(c, s, src, o)
}

// ---------------------------------------------------------------------------
// parse section

type parseOut struct {
	errText string
	panicky string
	ret     string
	matched string
	rest    string
}

func (p parseOut) ok() bool { return p.errText == "" && p.panicky == "" }

func runParse(cfg vmx.Cfg, src string, limit uint64, rx bool) (parseOut, outcome) {
	cfg.ParseLimit = limit
	o := executeRX(cfg, src, rx)
	var p parseOut
	switch {
	case o.pi != nil:
		p.panicky = o.pi.Sig() + " " + o.pi.Value
	case o.err != nil:
		p.errText = o.err.Error()
	default:
		p.ret = vmx.Repr(o.vm.Ret) + " vars " + vmx.AttrsRepr(o.vm)
		p.matched = o.vm.Matched
		p.rest = o.vm.RestInput
	}
	return p, o
}

func checkParse(c Case, s *rt.Section) *rt.Failure {
	src := c.Src
	if c.Fam != "" {
		var ok bool
		if src, _, ok = wantFor(c); !ok {
			return s.NewFailure("replay", "replay:unknown-family", c, c.Fam, "a known family")
		}
	}
	base, o0 := runParse(c.Cfg, src, 0, c.RX)
	if f := budgetOracles(c, s, src, o0); f != nil {
		return f
	}
	prevOK := false
	var prevL uint64
	for _, L := range c.Limits {
		p, o := runParse(c.Cfg, src, L, c.RX)
		if o.ceiling {
			return budgetOracles(c, s, src, o)
		}
		// every parser built during the run (the program's, the second compilation of a consumed prefix, bodies compiled
		// at first use, the sub-parses of a custom syntax's ReadExpr) works under the limit: none evaluates more than
		// L+1 expressions
		if int64(L) < 1<<40 && o.psteps > o.parsers*int64(L+1) {
			return s.NewFailure("parse-budget", "parse:work-exceeds-limit", c,
				fmt.Sprintf("ParseExprLimit %d: %d parsers evaluated %d expressions (outcome %s)", L, o.parsers, o.psteps, o),
				fmt.Sprintf("at most parsers·(L+1) = %d", o.parsers*int64(L+1)))
		}
		if o.psteps > int64(L) {
			parseWorkOver = true
		}
		if p.panicky != "" {
			return s.NewFailure("parse-budget", o.pi.Sig(), c, fmt.Sprintf("ParseExprLimit %d: panic %s", L, p.panicky), "an error")
		}
		if p.ok() {
			if !base.ok() {
				return s.NewFailure("parse-budget", "parse:limit-cures-error", c,
					fmt.Sprintf("ParseExprLimit %d: accepted (ret %s) although without a limit: %s", L, clip(p.ret, 200), clip(base.errText, 200)), "the same error")
			}
			if p != base && !sameModuloMapOrder(src, p, base) {
				return s.NewFailure("parse-budget", "parse:limit-changes-outcome", c,
					fmt.Sprintf("ParseExprLimit %d: ret=%s matched=%q rest=%q", L, clip(p.ret, 300), clip(p.matched, 80), clip(p.rest, 80)),
					fmt.Sprintf("an error, or the unlimited outcome ret=%s matched=%q rest=%q", clip(base.ret, 300), clip(base.matched, 80), clip(base.rest, 80)))
			}
			prevOK, prevL = true, L
		} else if base.ok() {
			parseRejected = true
		}
		if !p.ok() && prevOK {
			return s.NewFailure("parse-budget", "parse:not-monotone", c,
				fmt.Sprintf("accepted under ParseExprLimit %d but rejected under the larger limit %d: %s", prevL, L, clip(p.errText, 200)), "acceptance is monotone in the limit")
		}
	}
	return nil
}

// injectR writes R before up to three '(' of src that open an operand (not a call: the byte before is not part of a word).
func injectR(t *rapid.T, src string) string {
	var spots []int
	for i := 0; i < len(src); i++ {
		if src[i] != '(' {
			continue
		}
		if i > 0 {
			b := src[i-1]
			if b == '_' || b == ')' || b == ']' || b == '\'' || b == '"' || b == '`' || b >= 0x80 || (b >= '0' && b <= '9') || (b >= 'a' && b <= 'z') || (b >= 'A' && b <= 'Z') {
				continue
			}
		}
		spots = append(spots, i)
	}
	if len(spots) == 0 {
		return "R(" + src + ")"
	}
	n := rapid.IntRange(1, 3).Draw(t, "nR")
	chosen := map[int]bool{}
	for k := 0; k < n; k++ {
		chosen[spots[rapid.IntRange(0, len(spots)-1).Draw(t, "rSpot")]] = true
	}
	var sb strings.Builder
	for i := 0; i < len(src); i++ {
		if chosen[i] {
			sb.WriteByte('R')
		}
		sb.WriteByte(src[i])
	}
	return sb.String()
}

// sameModuloMapOrder: dir(), keys()/values()/items() and the text of a multi-key dict list their
// entries in Go map order, which differs from run to run; two outcomes of such a source that
// consume the same text and are permutations of each other's bytes are the same outcome.
func sameModuloMapOrder(src string, a, b parseOut) bool {
	// since fix 6269628 a dict prints and lists its entries in key order: nothing is tolerated any more
	if true {
		return false
	}
	if a.matched != b.matched || a.rest != b.rest || len(a.ret) != len(b.ret) {
		return false
	}
	if !strings.Contains(src, "dir(") && !strings.Contains(src, "{") && !strings.Contains(src, "keys") &&
		!strings.Contains(src, "values") && !strings.Contains(src, "items") {
		return false
	}
	var ca, cb [256]int
	for i := 0; i < len(a.ret); i++ {
		ca[a.ret[i]]++
		cb[b.ret[i]]++
	}
	return ca == cb
}

// ---------------------------------------------------------------------------
// generators

var budgets = []int{60, 200, 1000, 30000}

func drawCfg(t *rapid.T, allFamilies bool) vmx.Cfg {
	cfg := vmx.Cfg{
		OpLimit: rapid.SampledFrom(budgets).Draw(t, "budget"),
		Mode:    rapid.SampledFrom([]string{"", "min", "max"}).Draw(t, "mode"),
		SeedHex: drawSeed(t),
	}
	if allFamilies {
		cfg.CoC, cfg.WoD, cfg.Fate, cfg.DC = true, true, true, true
	}
	if rapid.Bool().Draw(t, "parseLimited") {
		cfg.ParseLimit = 10_000_000
	}
	return cfg
}

// pick draws an index in [0,n) without rapid's preference for small values (which would make
// the first families of a table several times more frequent than the rest).
func pick(t *rapid.T, label string, n int) int {
	a := rapid.Uint64().Draw(t, label+"A")
	b := rapid.Uint64().Draw(t, label+"B")
	return int(rt.Mix(rt.Mix(a)^(b+0x51ed270b)) % uint64(n))
}

func drawSeed(t *rapid.T) string {
	return hex.EncodeToString(rapid.SliceOfN(rapid.Byte(), 16, 16).Draw(t, "seed"))
}

// nearCap draws a size around capacity cp: mostly within ±3, otherwise anywhere up to hi.
func nearCap(t *rapid.T, cp, hi int) int {
	if hi < 1 {
		hi = 1
	}
	switch rapid.IntRange(0, 9).Draw(t, "nShape") {
	case 0, 1, 2, 3:
		if cp > 0 {
			return max(0, cp+rapid.IntRange(-3, 3).Draw(t, "nDelta"))
		}
	case 4, 5:
		if cp > 0 {
			return rapid.IntRange(cp/2, max(cp/2, min(hi, 2*cp))).Draw(t, "nAround")
		}
	case 6:
		return rapid.IntRange(0, 12).Draw(t, "nSmall")
	}
	return rapid.IntRange(0, hi).Draw(t, "nAny")
}

func TestProp(t *testing.T) {
	run := rt.Begin(t, "C07")
	defer run.Finish()
	thorough := run.Env.Thorough()

	// ---------------------------------------------------------------- capacity
	capRule := "a program family with a closed-form value (n-term sum/&&/||/ternary/else-if chains, the same sum inside if/while/function/computed bodies, n-element list/dict/argument/template-part/statement sequences, n-deep if/template/hole/while/function/paren/array/call/dict nesting, ranges/repeats/concats/slice inserts of n elements, n dice, pools of n, recursion and loops of depth n) with n drawn around the capacity it crosses (8192 instructions, 1000 stack slots, 20 nested blocks, 512 elements, 20000 pool, the operation budget) x OpCountLimit {1000,30000; 10^6 for the long straight-line programs} x mode: the outcome is the closed-form value or an error, plus the budget oracles; non-trivial = n within a factor 2 of the capacity or the run was rejected; distinct by (family, n, m, configuration)"
	run.Check("capacity", 520, 6000, capRule, func(t *rapid.T, s *rt.Section) {
		f := familyByName(familyNames()[pick(t, "family", len(families))])
		c := Case{Fam: f.name, M: rapid.IntRange(0, 1000).Draw(t, "m")}
		c.Cfg = vmx.Cfg{
			OpLimit: rapid.SampledFrom([]int{1000, 30000, 30000, 30000}).Draw(t, "budget"),
			Mode:    rapid.SampledFrom([]string{"", "min", "max"}).Draw(t, "mode"),
			SeedHex: drawSeed(t),
		}
		if rapid.Bool().Draw(t, "parseLimited") {
			c.Cfg.ParseLimit = 10_000_000
		}
		if f.needs != nil {
			f.needs(&c.Cfg)
		}
		if f.what == "code" && rapid.Bool().Draw(t, "roomyBudget") {
			c.Cfg.OpLimit = 1_000_000 // lets 20000-term programs run to their end; never used for recursion or dice
		}
		hi, cp := f.hi, f.cap
		if thorough {
			hi = f.hiT
		}
		if f.what == "budget" {
			cp = c.Cfg.OpLimit
			if f.name == "recur" || f.name == "nestfunc" || f.name == "comprecur" {
				cp = c.Cfg.OpLimit / 100
			}
			if f.name == "loop" {
				cp = min(c.Cfg.OpLimit/7, capStack/2)
			}
			cp = min(cp, 40000)
			if hi == 0 {
				hi = max(40, min(2*cp+10, 64000))
			}
			if f.name == "nestfunc" {
				hi = min(hi, 700)
			}
		}
		c.N = nearCap(t, cp, hi)
		if f.what == "budget" && c.N > 12000 && rapid.IntRange(0, 3).Draw(t, "thin") != 0 {
			c.N = c.N % 12000 // tens of thousands of dice or iterations are slow; keep most cases cheap
		}
		if f.what == "depth" && rapid.IntRange(0, 3).Draw(t, "deep") == 0 && !s.Avoid("deep_nesting") {
			// only reachable once the parser has a depth limit: today this kills the process
			c.N = rapid.IntRange(25000, 40000).Draw(t, "nDeep")
			c.Cfg.ParseLimit = 0
		}
		if f.name == "comprecur" && s.Avoid("outer_computed") {
			f = familyByName("recur")
			c.Fam = f.name
		}
		if f.what == "code" && c.N >= cp-8 && s.Avoid("code_truncation") {
			c.N = max(0, cp-8-rapid.IntRange(0, 40).Draw(t, "nBelow"))
		}
		s.Eval()
		s.Class("fam:" + f.name)
		s.Class("crosses:" + f.what)
		s.Crumb(c)
		fail := checkCapacity(c, s)
		h := rt.Hash(c.key())
		if fail == nil {
			o := lastOutcome
			rejected := o.err != nil
			if rejected {
				s.Class("rejected")
				if isBudgetErr(o.err) {
					s.Class("rejected:budget")
				}
			} else {
				s.Class("value-correct")
			}
			if rejected || (cp > 0 && c.N*2 >= cp && c.N <= 2*cp) {
				s.NonTrivial(h)
			}
		}
		if len(c.key()) < 300 {
			s.Sample(h, c)
		}
		s.Report(t, fail)
	})

	// ---------------------------------------------------------------- sweep
	radius := 2
	if thorough {
		radius = 40
	}
	sweepRule := fmt.Sprintf("every family that crosses a fixed capacity (8192 instructions, 1000 stack slots, 20 nested blocks, 512 elements, 20000 pool) and the budget families under OpCountLimit 1000, evaluated for every n within %d of the capacity (nesting: every n in 0..%d) with m = 0: closed-form value or an error, plus the budget oracles; every case is non-trivial by construction (n within a factor 2 of the capacity); distinct by (family, n)", radius, capNest+radius+5)
	run.Enum("sweep", sweepRule, func(s *rt.Section) {
		s.Exhaustive = true
		s.Bounds = fmt.Sprintf("families with a fixed capacity x n in [capacity-%d, capacity+%d] (nest families n in [0,%d]); budget families (dice, CoC count, recursion, loop) x OpCountLimit 1000 x n around the budget; m = 0, random mode with a fixed seed (min/max where the closed form needs it)", radius, radius, capNest+radius+5)
		idx := 0
		for fi := range families {
			f := &families[fi]
			cfg := vmx.Cfg{OpLimit: 30000, SeedHex: "000102030405060708090a0b0c0d0e0f"}
			var lo, hi int
			switch f.what {
			case "code":
				lo, hi = f.cap-radius, f.cap+radius
				cfg.OpLimit = 1_000_000
			case "stack", "len":
				lo, hi = f.cap-radius, f.cap+radius
			case "nest":
				lo, hi = 0, capNest+radius+5
			case "budget":
				cfg.OpLimit = 1000
				switch f.name {
				case "recur", "nestfunc", "comprecur":
					lo, hi = 0, 10+radius/2
				case "loop":
					lo, hi = 1000/7-radius, 1000/7+radius
				default:
					lo, hi = 1000-radius-8, 1000+radius
				}
			default:
				continue
			}
			if f.name == "comprecur" && s.Avoid("outer_computed") {
				continue
			}
			if f.needs != nil {
				f.needs(&cfg)
			}
			for n := max(lo, 0); n <= hi; n++ {
				idx++
				if idx%run.Env.NShards != run.Env.Shard {
					continue
				}
				c := Case{Fam: f.name, N: n, Cfg: cfg}
				s.Eval()
				s.Class("crosses:" + f.what)
				s.Crumb(c)
				h := rt.Hash(c.key())
				s.NonTrivial(h)
				if n == hi || n == lo {
					s.Sample(h, c)
				}
				fail := checkCapacity(c, s)
				if fail == nil {
					if lastOutcome.err != nil {
						s.Class("rejected")
					} else {
						s.Class("value-correct")
					}
				}
				if s.Report(nil, fail) {
					return
				}
			}
		}
	})

	// ---------------------------------------------------------------- pad
	padRule := "P = generated program (statements, functions, computed values, templates, seeded dice of every family, single-key dicts) compared with '424242*0*(1+…+1); P' on a fresh VM of the same seed and configuration, the padding sized so that the 8192th instruction falls at a drawn position inside P (or, while finding C07-F01 is open, stays below it): same result, variables and rest text, or an error; non-trivial = padding + P cross the 8192-instruction capacity, or the padded run was rejected; distinct by (P, padding, configuration)"
	run.Check("pad", 128, 1600, padRule, func(t *rapid.T, s *rt.Section) {
		c := Case{Cfg: vmx.Cfg{OpLimit: 30000, CoC: true, WoD: true, Fate: true, DC: true,
			Mode:    rapid.SampledFrom([]string{"", "min", "max"}).Draw(t, "mode"),
			SeedHex: drawSeed(t)}}
		o := gen.DefaultOpts()
		o.MaxStmts = 6
		o.MaxDepth = 3
		o.Dice, o.CoC, o.WoD, o.Fate, o.DC = true, true, true, true, true
		o.SingleKeyDicts = false // since fix 6269628 a dict prints and lists its entries in key order
		o.ThisAssign = false
		o.StrIndexOOB = false
		o.Computed = !s.Avoid("outer_computed")
		g := gen.NewG(t, o, nil)
		c.Src = gen.Print(g.Program())
		// instruction count of P alone (shapes the padding; the oracle does not use it)
		vm := c.Cfg.NewVM()
		n := 0
		if pi := rt.Guard(func() {
			if vm.Parse(c.Src) == nil {
				n = len(vm.VerifCode())
			}
		}); pi != nil || n == 0 {
			s.Discard("program-does-not-compile")
			return
		}
		cut := rapid.IntRange(0, n+2).Draw(t, "cut") // instructions of P that still fit
		c.Pad = (capCode - cut - 4) / 2
		crossing := true
		if s.Avoid("code_truncation") {
			c.Pad = rapid.IntRange(1, 60).Draw(t, "smallPad")
			crossing = false
		} else if rapid.IntRange(0, 5).Draw(t, "noCross") == 0 {
			c.Pad = rapid.IntRange(1, (capCode-n)/2-8).Draw(t, "padBelow")
			crossing = false
		}
		s.Eval()
		s.Crumb(c)
		fail := checkPad(c, s)
		h := rt.Hash(c.key())
		if fail == nil {
			if lastOutcome.err != nil {
				s.Class("padded-run-rejected")
				s.NonTrivial(h)
			} else {
				s.Class("padded-run-equal")
				if crossing {
					s.NonTrivial(h)
				}
			}
		}
		if crossing {
			s.Class("crossing-8192")
		} else {
			s.Class("below-8192")
		}
		if len(c.Src) < 200 {
			s.Sample(h, c)
		}
		s.Report(t, fail)
	})

	// ---------------------------------------------------------------- budget
	budRule := "adversarial families with swept parameters (dice counts and sides up to 10^20, exploding WoD/Double Cross pools with huge sides and low add lines, CoC counts, Fate sums, recursion, mutual recursion through functions and computed values, endless loops of every shape, string/template/array doubling, repeat, nested sharing, self-containing containers, push/dict growth, toStr/repr rounds, slice-assignment doubling), hostile templates of the shared generator, and generated programs whose loop conditions and counts were replaced by unbounded ones x OpCountLimit {60,200,1000,30000} x {random (seeded),min,max} x ParseExprLimit {0,10^7}; oracles: returns below the meter ceiling 64·B+10^4, W = dispatches+rolls <= 8·B+1000, success => NumOpCount <= B and W <= 5·NumOpCount+16, longest string/array reachable from result and variables linear in the counted work; non-trivial = the run ended in an error or did more than B/2 metered steps; distinct by (source, configuration)"
	run.Check("budget", 7200, 200000, budRule, func(t *rapid.T, s *rt.Section) {
		c := Case{Cfg: drawCfg(t, true)}
		B := c.Cfg.OpLimit
		kind := rapid.IntRange(0, 9).Draw(t, "kind")
		switch {
		case kind <= 4:
			f := advByName(advNames()[pick(t, "adv", len(advFamilies))])
			c.Fam = f.name
			c.M = rapid.IntRange(0, 2000).Draw(t, "m")
			c.K = rapid.IntRange(0, 60).Draw(t, "k")
			switch rapid.IntRange(0, 3).Draw(t, "nShape") {
			case 0:
				c.N = max(0, B+rapid.IntRange(-12, 12).Draw(t, "nNearB"))
			case 1:
				c.N = rapid.IntRange(0, 40).Draw(t, "nSmall")
			case 2:
				c.N = rapid.IntRange(0, 2*B).Draw(t, "nAny")
			default:
				c.N = max(0, B/rapid.SampledFrom([]int{2, 3, 7, 100}).Draw(t, "nDiv")+rapid.IntRange(-3, 3).Draw(t, "nDelta"))
			}
			switch f.name {
			case "tostr-rounds":
				// two rounds reach 5 MB, three reach 2.7 GB: keep the case affordable
				c.N = rapid.IntRange(0, 2).Draw(t, "rounds")
				if s.Avoid(f.avoid) {
					c.N = min(c.N, 1)
				} else if B >= 200 && rapid.Bool().Draw(t, "moreRounds") {
					c.N = rapid.IntRange(3, 6).Draw(t, "rounds3") // only reachable once toStr is charged
				}
			case "slice-double":
				c.N = rapid.IntRange(0, 13).Draw(t, "rounds")
				if s.Avoid(f.avoid) {
					c.N = min(c.N, 1)
					c.M = c.M % 200
				} else if rapid.Bool().Draw(t, "moreRounds") {
					c.N = rapid.IntRange(14, 60).Draw(t, "rounds14") // only reachable once the growth is limited
				}
			case "slice-insert":
				c.N = rapid.IntRange(0, 40).Draw(t, "rounds")
			case "outer-computed":
				if s.Avoid(f.avoid) {
					// the same shapes with the computed value replaced by its expression
					c.Fam = "dice-loop"
				}
			case "dice", "dice-keep", "dice-sum", "dice-loop", "func-dice-loop":
				if c.N > 12000 && rapid.IntRange(0, 3).Draw(t, "thin") != 0 {
					c.N = c.N % 12000 // rolling tens of thousands of dice is slow (quadratic process text)
				}
			}
			s.Class("adv:" + c.Fam)
		case kind <= 6:
			g := gen.NewG(t, gen.DefaultOpts(), nil)
			src, cls := g.Hostile()
			if strings.Contains(cls, "{longsum}") && len(src) > 12000 {
				src = src[:12001] // 20000-term sums belong to the capacity section
			}
			c.Src = src
			s.Class("hostile")
		default:
			o := gen.DefaultOpts()
			o.MaxStmts = 6
			o.MaxDepth = 3
			o.Dice, o.CoC, o.WoD, o.Fate, o.DC = true, true, true, true, true
			o.SingleKeyDicts = false // since fix 6269628 a dict prints and lists its entries in key order
			o.Computed = !s.Avoid("outer_computed")
			g := gen.NewG(t, o, nil)
			p := g.Program()
			unbound(t, p)
			c.Src = gen.Print(p)
			s.Class("generated-unbounded")
		}
		s.Eval()
		s.Class("B=" + strconv.Itoa(B))
		s.Class("mode=" + c.Cfg.Mode)
		s.Crumb(c)
		fail := checkBudget(c, s)
		h := rt.Hash(c.key())
		if fail == nil {
			o := lastOutcome
			if o.err != nil {
				if isBudgetErr(o.err) {
					s.Class("rejected:budget")
				} else {
					s.Class("rejected:other")
				}
				s.NonTrivial(h)
			} else {
				s.Class("completed")
				if o.W() > int64(B)/2 {
					s.NonTrivial(h)
				}
			}
		}
		if len(c.key()) < 260 {
			s.Sample(h, c)
		}
		s.Report(t, fail)
	})

	// ---------------------------------------------------------------- lazy
	lazyRule := "a body the VM compiles at first use — installed by the host as a function (NewFunctionValRaw), a computed value (NewComputedVal) or handed out afresh at every load by GlobalValueLoadFunc — used by a program under OpCountLimit 60/200/1000/30000: counted loop before the first use, use inside an endless or counted loop, a body that loops itself, and a body of 4096±3 (or any up to 6000) sum terms around the 8192-instruction capacity evaluated 2..3 times on the same VM; budget oracles (a)-(d) on every evaluation, closed-form value or an error for each evaluation; non-trivial = the budget stopped the run or the body crossed the capacity; distinct by (family, how, n, m, runs, configuration)"
	run.Check("lazy", 1600, 24000, lazyRule, func(t *rapid.T, s *rt.Section) {
		c := drawLazyCase(t)
		s.Eval()
		s.Class("lazy:" + c.Fam)
		s.Class("how:" + c.How)
		s.Crumb(c)
		fail := checkLazy(c, s)
		if fail == nil {
			o := lastOutcome
			h := rt.Hash(fmt.Sprint(c))
			switch {
			case o.err != nil && isBudgetErr(o.err):
				s.Class("rejected:budget")
				s.NonTrivial(h)
			case o.err != nil:
				s.Class("rejected:other")
				if c.Fam == "big-body" || c.Fam == "big-body-after-small" {
					s.NonTrivial(h)
				}
			default:
				s.Class("completed")
			}
			if c.N < 50 {
				s.Sample(h, c)
			}
		}
		s.Report(t, fail)
	})

	// ---------------------------------------------------------------- parse
	parseRule := "a source (generated program with optional broken-off tail, closed-form family member, hostile template; one in four on a VM with a custom dice syntax R<operand> that reads its operand with ReadExpr, R written before parenthesised operands) evaluated with ParseExprLimit 0 and then under an ascending list of 2..5 limits drawn from {1..200, 500, 5000, 2·10^4..2·10^6, 10^7} on fresh VMs of the same seed: under a limit the outcome is an error or exactly the unlimited outcome (result, variables, Matched, RestInput), never a panic, once accepted it stays accepted under every larger limit, and all parsers built during a run under limit L (verif parse meter) together evaluate at most parsers·(L+1) expressions; non-trivial = some limit rejected a source that the unlimited parser accepts; distinct by (source, limits, configuration)"
	run.Check("parse", 1200, 40000, parseRule, func(t *rapid.T, s *rt.Section) {
		c := Case{Cfg: vmx.Cfg{OpLimit: 30000, CoC: true, WoD: true, Fate: true, DC: true,
			Mode:    rapid.SampledFrom([]string{"", "min", "max"}).Draw(t, "mode"),
			SeedHex: drawSeed(t)}}
		switch rapid.IntRange(0, 5).Draw(t, "kind") {
		case 0:
			f := familyByName(familyNames()[pick(t, "family", len(families))])
			if f.what == "depth" || f.what == "budget" || f.needs != nil {
				f = &families[0]
			}
			c.Fam = f.name
			c.M = rapid.IntRange(0, 1000).Draw(t, "m")
			c.N = rapid.IntRange(0, 300).Draw(t, "n")
			s.Class("family")
		case 1:
			g := gen.NewG(t, gen.DefaultOpts(), nil)
			src, _ := g.Hostile()
			if len(src) > 3000 {
				src = src[:3000]
			}
			c.Src = src
			s.Class("hostile")
		default:
			o := gen.DefaultOpts()
			o.MaxStmts = 5
			o.MaxDepth = 3
			o.Dice, o.CoC, o.WoD, o.Fate, o.DC = true, true, true, true, true
			o.SingleKeyDicts = false // since fix 6269628 a dict prints and lists its entries in key order
			o.Computed = !s.Avoid("outer_computed")
			g := gen.NewG(t, o, nil)
			c.Src = gen.Print(g.Program())
			if rapid.IntRange(0, 2).Draw(t, "withTail") == 0 {
				tail, _ := g.Tail()
				c.Src += tail
				s.Class("generated+tail")
			} else {
				s.Class("generated")
			}
		}
		// one source in four is read by a VM with the R<operand> syntax, R written before some parenthesised operands and,
		// half of the time, before a long parenthesised sum of its own (a sub-parse that dwarfs the host's)
		if c.Fam == "" && rapid.IntRange(0, 3).Draw(t, "rx") == 0 {
			c.RX = true
			c.Src = injectR(t, c.Src)
			if rapid.Bool().Draw(t, "rxBig") {
				n := rapid.IntRange(20, 400).Draw(t, "rxTerms")
				c.Src = "R(" + strings.Repeat("1+", n) + "1); " + c.Src
			}
			s.Class("custom-readexpr")
		}
		nl := rapid.IntRange(2, 5).Draw(t, "nLimits")
		set := map[uint64]bool{}
		for i := 0; i < nl; i++ {
			var L uint64
			switch rapid.IntRange(0, 5).Draw(t, "limitShape") {
			case 0:
				L = uint64(rapid.IntRange(1, 200).Draw(t, "L"))
			case 1:
				L = rapid.SampledFrom([]uint64{500, 5000, 10_000_000}).Draw(t, "L")
			case 2, 3:
				L = uint64(rapid.IntRange(200, 20000).Draw(t, "L"))
			default:
				L = uint64(rapid.IntRange(20000, 2_000_000).Draw(t, "L"))
			}
			set[L] = true
		}
		for L := range set {
			c.Limits = append(c.Limits, L)
		}
		sortU64(c.Limits)
		s.Eval()
		s.Crumb(c)
		parseRejected, parseWorkOver = false, false
		fail := checkParse(c, s)
		if parseWorkOver {
			s.Class("several-parsers-exceed-one-limit-together")
		}
		h := rt.Hash(c.key())
		if fail == nil && parseRejected {
			s.Class("limit-rejected-an-accepted-source")
			s.NonTrivial(h)
		}
		if len(c.key()) < 300 {
			s.Sample(h, c)
		}
		s.Report(t, fail)
	})
}

func sortU64(a []uint64) {
	for i := 1; i < len(a); i++ {
		for j := i; j > 0 && a[j] < a[j-1]; j-- {
			a[j], a[j-1] = a[j-1], a[j]
		}
	}
}

// unbound rewrites a generated program in place: loop conditions become constant true and
// dice counts / loop bounds become huge, each with a drawn probability.
func unbound(t *rapid.T, p *gen.Node) {
	p.Walk(func(n *gen.Node) {
		switch n.K {
		case "while":
			if rapid.IntRange(0, 2).Draw(t, "forever") != 0 {
				n.Kids[0] = gen.Int(1)
			} else if rapid.Bool().Draw(t, "longLoop") && n.Kids[0].K == "bin" && len(n.Kids[0].Kids) == 2 {
				n.Kids[0].Kids[1] = gen.Int(int64(rapid.SampledFrom([]int{100, 1000, 100000}).Draw(t, "loopBound")))
			}
		case "dice":
			if n.S != "adv" && n.S != "dis" && rapid.IntRange(0, 3).Draw(t, "bigCount") == 0 {
				n.Kids[0] = gen.Int(int64(rapid.SampledFrom([]int{59, 61, 199, 201, 999, 1001, 29990, 30001, 1000000}).Draw(t, "diceCount")))
			}
		case "wod":
			if rapid.IntRange(0, 2).Draw(t, "explode") == 0 {
				n.Kids[1] = gen.Int(2)
				n.Kids = append(n.Kids[:2], &gen.Node{K: "dmod", S: "m", Kids: []*gen.Node{gen.Int(100000000)}})
			}
		case "dc":
			if rapid.IntRange(0, 2).Draw(t, "explode") == 0 {
				n.Kids[1] = gen.Int(2)
				n.Kids = append(n.Kids[:2], &gen.Node{K: "dmod", S: "m", Kids: []*gen.Node{gen.Int(100000000)}})
			}
		case "coc":
			if rapid.IntRange(0, 3).Draw(t, "bigCount") == 0 {
				n.Kids[0] = gen.Int(int64(rapid.SampledFrom([]int{58, 199, 1001, 30001}).Draw(t, "cocCount")))
			}
		}
	})
}

// The property bodies classify on the outcome of the run that the oracle just made; the oracle
// functions leave it here (single-threaded per process).
var (
	lastOutcome   outcome
	parseRejected bool
	parseWorkOver bool // some run evaluated more expressions than one parser's limit (several parsers at work)
)

// ---------------------------------------------------------------------------

func TestReplay(t *testing.T) {
	dec := func(fn func(Case, *rt.Section) *rt.Failure) rt.ReplayFunc {
		return func(b []byte, s *rt.Section) *rt.Failure {
			var c Case
			if err := json.Unmarshal(b, &c); err != nil {
				return s.NewFailure("replay", "replay:bad-case", nil, err.Error(), "")
			}
			return fn(c, s)
		}
	}
	rt.Replay(t, "C07", map[string]rt.ReplayFunc{
		"capacity": dec(checkCapacity),
		"sweep":    dec(checkCapacity),
		"pad":      dec(checkPad),
		"budget":   dec(checkBudget),
		"parse":    dec(checkParse),
		"lazy": func(b []byte, s *rt.Section) *rt.Failure {
			var c LazyCase
			if err := json.Unmarshal(b, &c); err != nil {
				return s.NewFailure("replay", "replay:bad-case", nil, err.Error(), "")
			}
			return checkLazy(c, s)
		},
	})
}
