package c07

import (
	"fmt"
	"strconv"

	ds "github.com/sealdice/dicescript"
	"pgregory.net/rapid"

	"verif/harness/rt"
	"verif/harness/vmx"
)

// Section lazy: bodies the VM compiles when they are first used (a function or computed value the host installed from
// its text: restored character sheets, GlobalValueLoadFunc, NewFunctionValRaw / NewComputedVal), under a budget and
// around the code capacity.  The budget oracles apply to every run; the closed form of big-body to both runs.

type LazyCase struct {
	Fam string `json:"fam"`
	// How: func | computed | host (GlobalValueLoadFunc hands out a fresh computed value at every load) |
	// native (a host function hn() that evaluates the body with ctx.RunExpr while the program runs) |
	// runexpr (the program itself is evaluated with vm.RunExpr instead of vm.Run)
	How  string  `json:"how"`
	N    int     `json:"n"`
	M    int     `json:"m,omitempty"`
	Runs int     `json:"runs,omitempty"` // evaluations of the program on the same VM (default 1)
	Cfg  vmx.Cfg `json:"cfg"`
}

type lazyFamily struct {
	name string
	// body of the installed value and the program that uses it under the name `use` (lz() / lz / hc)
	build func(n, m int, use string) (body, prog string)
	// want: closed form of the program's value when it succeeds (nil: none)
	want func(n, m int) func(v *ds.VMValue) string
}

var lazyFamilies = []lazyFamily{
	// counted work before the first use: the compilation of the body must not forget it
	{name: "after-loop", build: func(n, m int, use string) (string, string) {
		return "1+1", fmt.Sprintf("i=0; while i<%d { i=i+1 }; %s", n, use)
	}, want: func(n, m int) func(*ds.VMValue) string { return wantInt(2) }},
	{name: "after-loop-sum", build: func(n, m int, use string) (string, string) {
		return fmt.Sprintf("%dd1", 1+m%50), fmt.Sprintf("s=0; i=0; while i<%d { s=s+1; i=i+1 }; s + %s", n, use)
	}, want: func(n, m int) func(*ds.VMValue) string { return wantInt(int64(n) + int64(1+m%50)) }},
	// every use in a loop
	{name: "use-forever", build: func(n, m int, use string) (string, string) {
		return fmt.Sprintf("%dd1", 1+m%200), fmt.Sprintf("while 1 { x = %s }", use)
	}},
	{name: "use-counted", build: func(n, m int, use string) (string, string) {
		return fmt.Sprintf("%dd1", 1+m%200), fmt.Sprintf("s=0; i=0; while i<%d { s = s + %s; i=i+1 }; s", n, use)
	}, want: func(n, m int) func(*ds.VMValue) string { return wantInt(int64(n) * int64(1+m%200)) }},
	// the body recurses through the installed name / loops by itself
	{name: "body-loops", build: func(n, m int, use string) (string, string) {
		return fmt.Sprintf("j=0; while j<%d { j=j+1 }; j", n), use
	}, want: func(n, m int) func(*ds.VMValue) string { return wantInt(int64(n)) }},
	{name: "body-loops-forever", build: func(n, m int, use string) (string, string) {
		return "while 1 { }", fmt.Sprintf("i=0; while i<%d { i=i+1 }; %s", n%500, use)
	}},
	// a body around the code capacity, used by several evaluations on one VM: every evaluation gives the full value or an error
	{name: "big-body", build: func(n, m int, use string) (string, string) {
		return sumOf(n), use
	}, want: func(n, m int) func(*ds.VMValue) string { return wantInt(int64(n)) }},
	{name: "big-body-after-small", build: func(n, m int, use string) (string, string) {
		return sumOf(n), "7; " + use
	}, want: func(n, m int) func(*ds.VMValue) string { return wantInt(int64(n)) }},
}

func lazyByName(name string) *lazyFamily {
	for i := range lazyFamilies {
		if lazyFamilies[i].name == name {
			return &lazyFamilies[i]
		}
	}
	return nil
}

func checkLazy(c LazyCase, s *rt.Section) *rt.Failure {
	f := lazyByName(c.Fam)
	if f == nil || (c.How != "func" && c.How != "computed" && c.How != "host" && c.How != "native" && c.How != "runexpr") {
		return s.NewFailure("replay", "replay:unknown-family", c, c.Fam+"/"+c.How, "a known family")
	}
	use := map[string]string{"func": "lz()", "computed": "lz", "host": "hc", "native": "hn()", "runexpr": "lz()"}[c.How]
	body, prog := f.build(c.N, c.M, use)
	vm := c.Cfg.NewVM()
	switch c.How {
	case "func":
		vm.Attrs.Store("lz", ds.NewFunctionValRaw(&ds.FunctionData{Expr: body, Name: "lz"}))
	case "computed":
		vm.Attrs.Store("lz", ds.NewComputedVal(body))
	case "host":
		vm.GlobalValueLoadFunc = func(name string) *ds.VMValue {
			if name == "hc" {
				return ds.NewComputedVal(body)
			}
			return nil
		}
	case "native":
		vm.Attrs.Store("hn", ds.NewNativeFunctionVal(&ds.NativeFunctionData{Name: "hn", Params: []string{},
			NativeFunc: func(ctx *ds.Context, this *ds.VMValue, params []*ds.VMValue) *ds.VMValue {
				v, err := ctx.RunExpr(body, false)
				if err != nil {
					ctx.Error = err
					return nil
				}
				return v
			}}))
	case "runexpr":
		vm.Attrs.Store("lz", ds.NewFunctionValRaw(&ds.FunctionData{Expr: body, Name: "lz"}))
	}
	B := budgetOf(c.Cfg)
	runs := c.Runs
	if runs < 1 {
		runs = 1
	}
	bc := Case{Fam: "lazy:" + c.Fam, N: c.N, M: c.M, Cfg: c.Cfg}
	for r := 0; r < runs; r++ {
		o := outcome{vm: vm}
		ds.VerifMeterReset(64*B + 10_000)
		o.pi = rt.Guard(func() {
			if c.How == "runexpr" {
				vm.Error = nil
				vm.NumOpCount = 0 // RunExpr continues the count of the previous evaluation; the host starts it afresh
				var v *ds.VMValue
				if v, o.err = vm.RunExpr(prog, true); o.err == nil {
					vm.Ret = v
				}
				return
			}
			o.err = vm.Run(prog)
		})
		o.ops, o.rolls = ds.VerifOpsDone.Load(), ds.VerifRollsDone.Load()
		ds.VerifMeterReset(0)
		o.cnt = int64(vm.NumOpCount)
		if o.pi != nil {
			if _, hit := o.pi.Raw.(ds.VerifCeilingHit); hit {
				o.ceiling = true
			}
		}
		lastOutcome = o
		if fl := budgetOracles(bc, s, prog, o); fl != nil {
			fl2 := s.NewFailure(fl.Oracle, fl.Signature+"/"+c.How, c, fmt.Sprintf("evaluation %d of %q with %s body %s: ", r+1, clip(prog, 120), c.How, clip(strconv.Quote(body), 80))+fl.Observed, fl.Expected)
			return fl2
		}
		if o.err != nil || f.want == nil {
			continue
		}
		if msg := f.want(c.N, c.M)(vm.Ret); msg != "" {
			sig := "lazy:wrong-value/" + c.Fam + "/" + c.How
			return s.NewFailure("closed-form", sig, c,
				fmt.Sprintf("evaluation %d of %q with %s body of %d bytes (NumOpCount %d) gives %s", r+1, clip(prog, 120), c.How, len(body), o.cnt, clip(vmx.Repr(vm.Ret), 200)),
				msg+", or an error")
		}
	}
	return nil
}

func drawLazyCase(t *rapid.T) LazyCase {
	c := LazyCase{Cfg: drawCfg(t, true)}
	f := lazyFamilies[pick(t, "lazyFam", len(lazyFamilies))]
	c.Fam = f.name
	c.How = rapid.SampledFrom([]string{"func", "computed", "host", "native", "runexpr"}).Draw(t, "how")
	B := c.Cfg.OpLimit
	c.M = rapid.IntRange(0, 2000).Draw(t, "m")
	c.Runs = rapid.IntRange(1, 3).Draw(t, "runs")
	switch f.name {
	case "big-body", "big-body-after-small":
		// 2 instructions per term: the capacity of 8192 instructions is crossed near 4096 terms
		c.N = nearCap(t, 4096, 6000)
		c.Cfg.OpLimit = 1_000_000
		if c.Runs < 2 {
			c.Runs = 2
		}
	case "use-counted":
		c.N = rapid.IntRange(0, 60).Draw(t, "nUses")
	default:
		switch rapid.IntRange(0, 3).Draw(t, "nKind") {
		case 0:
			c.N = max(0, B/7+rapid.IntRange(-12, 12).Draw(t, "nNearLoopBudget"))
		case 1:
			c.N = rapid.IntRange(0, 40).Draw(t, "nSmall")
		default:
			c.N = rapid.IntRange(0, max(1, B/4)).Draw(t, "nAny")
		}
	}
	return c
}
