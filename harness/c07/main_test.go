package c07

import (
	"os"
	"syscall"
	"testing"
)

// The subject of this property is resource exhaustion. A defect (or a mutant) that lets memory
// grow without bound must end this process with "fatal error: out of memory" — which the driver
// reports as a crash of the last case — and never take the machine down, also when a case is
// replayed outside the driver's own ulimit.
func TestMain(m *testing.M) {
	const limit = 6 << 30
	var r syscall.Rlimit
	if err := syscall.Getrlimit(syscall.RLIMIT_AS, &r); err == nil && r.Cur > limit {
		r.Cur = limit
		_ = syscall.Setrlimit(syscall.RLIMIT_AS, &r)
	}
	os.Exit(m.Run())
}
