package c07

import (
	"fmt"
	"os"
	"testing"

	"verif/harness/vmx"
)

// TestFamiliesSmoke: every closed-form family gives its closed-form value at small sizes
// (guards the check's own tables; not part of the driver's run).
func TestFamiliesSmoke(t *testing.T) {
	for _, f := range families {
		for _, n := range []int{0, 1, 2, 3, 7, 12} {
			for _, m := range []int{0, 1, 2, 5} {
				c := Case{Fam: f.name, N: n, M: m, Cfg: vmx.Cfg{OpLimit: 30000, SeedHex: "000102030405060708090a0b0c0d0e0f"}}
				if f.needs != nil {
					f.needs(&c.Cfg)
				}
				src, want, _ := wantFor(c)
				o := execute(c.Cfg, src)
				if o.pi != nil {
					t.Errorf("%s n=%d m=%d %q: panic %s", f.name, n, m, src, o.pi.Value)
					continue
				}
				if o.err != nil {
					if os.Getenv("C07_VERBOSE") != "" {
						fmt.Printf("%s n=%d m=%d %q: error %v\n", f.name, n, m, clip(src, 100), clip(o.err.Error(), 80))
					}
					continue
				}
				if msg := want(o.vm.Ret); msg != "" || o.vm.RestInput != "" {
					t.Errorf("%s n=%d m=%d %q: got %s rest %q, want %s", f.name, n, m, clip(src, 200), vmx.Repr(o.vm.Ret), o.vm.RestInput, msg)
				}
			}
		}
	}
	for _, f := range advFamilies {
		for _, n := range []int{0, 1, 5} {
			if f.avoid != "" && n > 1 {
				continue
			}
			src := f.build(n, 3, 2)
			cfg := vmx.Cfg{OpLimit: 1000, CoC: true, WoD: true, Fate: true, DC: true, SeedHex: "000102030405060708090a0b0c0d0e0f"}
			o := execute(cfg, src)
			if os.Getenv("C07_VERBOSE") != "" {
				fmt.Printf("adv %-20s %-70q %s W=%d cnt=%d\n", f.name, clip(src, 70), clip(o.String(), 60), o.W(), o.cnt)
			}
			if o.pi != nil {
				t.Errorf("adv %s %q: panic %s", f.name, src, o.pi.Value)
			}
		}
	}
}
