package c17

import (
	"fmt"
	"strconv"
	"testing"

	ds "github.com/sealdice/dicescript"
)

func TestProbe(t *testing.T) {
	srcs := []string{"E5", "E5+1", "(E5)+1", "(E5)", "[E5]", "[E5, 2]", "x = E5", "x = [E5]", "E5 ? 1 : 2", "1 ? E5 : 2", "E5 ? 1", "g(E5)", "func g(x){x}; g(E5)", "{'a': E5}", "`a{E5}b`", "-E5", "E5 * E5", "2dE5", "2d(E5)", "(E5)d6", "E5[0]", "E5.x", "[1,2][E5]", "x=[1,2,3,4,5,6,7,8,9,10,11]; x[E5]", "x=[1,2,3,4,5,6,7,8,9,10,11]; x[E5] = 3", "x=[1,2,3,4,5,6,7,8,9,10,11]; x[E5:]", "i=0;s=0; while i<3 { s = s + E5; i=i+1 }; s", "if E5 { 1 }", "if 1 { E5 }", "1 + E5", "1 || E5", "0 || E5", "E5 || 1", "E5d6", "E5 E6", "3!", "3!=4", "3!+1", "x = 3!", "(3!)", "5X1 + 5d1", "5X1k", "&c = E5; c", "&c = E5 + 1; c + c"}
	for _, src := range srcs {
		vm := ds.NewVM()
		vm.Config.OpCountLimit = 30000
		vm.Config.DiceMinMode = true
		n := 0
		h := func(ctx *ds.Context, groups []string, payload any) (*ds.VMValue, string, error) {
			n++
			v, _ := strconv.Atoi(groups[1])
			return ds.NewIntVal(ds.IntType(v * 2)), "", nil
		}
		_ = vm.RegCustomDice(`E(\d+)`, h)
		_ = vm.RegCustomDice(`(\d+)!`, h)
		_ = vm.RegCustomDice(`(\d+)X1`, h)
		err := vm.Run(src)
		if err != nil {
			fmt.Printf("%-40q calls=%d ERR %v\n", src, n, err)
			continue
		}
		fmt.Printf("%-40q calls=%d ret=%s rest=%q detail=%q\n", src, n, vm.Ret.ToString(), vm.RestInput, vm.GetDetailText())
	}
}
