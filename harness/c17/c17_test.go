// C17 — extension points are transparent unless they act.
//
// Sections
//
//	transparent  generated program (+ optional broken-off tail, + optional set-up program) on a plain VM versus the
//	             same VM with custom syntaxes that do not match, read-ahead stream parsers that decline, pass-through
//	             load/store hooks and detail rewriters that return their input
//	acting       programs whose integer operands are rewritten into operands of registered custom syntaxes: value and
//	             variables as with the literals, handler log equal to the call log of a reference run in which the same
//	             operands are calls of a native function
//	analog       <n>X<m> implemented by a handler exactly like the built-in <n>d<m> under min/max mode: the custom
//	             operand must be indistinguishable from the dice term (value, process text, rest, variables)
//	contexts     bounded exhaustive: every syntactic context of a list x every syntax x two values, oracle of acting
package c17

import (
	"encoding/json"
	"fmt"
	"regexp"
	"sort"
	"strings"
	"testing"

	ds "github.com/sealdice/dicescript"
	"pgregory.net/rapid"

	"verif/harness/gen"
	"verif/harness/rt"
	"verif/harness/vmx"
)

const (
	workCeiling = 3_000_000
	opLimit     = 200_000
	avoidSwitch = "custom_in_lookahead"
)

// ---------------------------------------------------------------------------
// running one program

type outcome struct {
	err     string
	isErr   bool
	pi      *rt.PanicInfo
	ceiling bool
	ret     string
	matched string
	rest    string
	detail  string
	attrs   string
	attrsNT string // variables without the source text of function / computed bodies
	seed    string
}

func (o outcome) opLimited() bool {
	return o.isErr && strings.Contains(o.err, "算力上限")
}

func runOne(vm *ds.Context, src string) outcome {
	var o outcome
	ds.VerifMeterReset(workCeiling)
	defer ds.VerifMeterReset(0)
	o.pi = rt.Guard(func() {
		err := vm.Run(src)
		if err != nil {
			o.isErr = true
			o.err = err.Error()
			o.attrs = vmx.AttrsRepr(vm)
			o.attrsNT = attrsNoText(vm)
			return
		}
		o.ret = vmx.Repr(vm.Ret)
		o.matched = vm.Matched
		o.rest = vm.RestInput
		o.detail = vm.GetDetailText()
		o.attrs = vmx.AttrsRepr(vm)
		o.attrsNT = attrsNoText(vm)
		o.seed = vmx.SeedHex(vm)
	})
	if o.pi != nil {
		if _, hit := o.pi.Raw.(ds.VerifCeilingHit); hit {
			o.ceiling = true
		}
	}
	return o
}

func runSetup(vm *ds.Context, setup []string) {
	for _, s := range setup {
		func() {
			ds.VerifMeterReset(workCeiling)
			defer ds.VerifMeterReset(0)
			defer func() { _ = recover() }()
			_ = vm.Run(s)
		}()
	}
}

// sameModuloDictOrder: the process text prints dict values through ToString, whose entry
// order is Go map order (a one-key literal can gain keys by item assignment); two texts that
// contain a dict rendering and are permutations of each other's bytes are taken to be the same.
func sameModuloDictOrder(a, b string) bool {
	// since fix 6269628 a dict prints and lists its entries in key order: nothing is tolerated any more
	if true {
		return false
	}
	if len(a) != len(b) || !strings.Contains(a, "{'") {
		return false
	}
	var ca, cb [256]int
	for i := 0; i < len(a); i++ {
		ca[a[i]]++
		cb[b[i]]++
	}
	return ca == cb
}

func clip(s string) string {
	if len(s) > 700 {
		return s[:700] + "…"
	}
	return s
}

func firstLine(s string) string {
	if i := strings.IndexByte(s, '\n'); i >= 0 {
		return s[:i]
	}
	return s
}

// ---------------------------------------------------------------------------
// section transparent

type TCase struct {
	Cfg   vmx.Cfg  `json:"cfg"`
	Exts  []Ext    `json:"exts"`
	Hooks Hooks    `json:"hooks"`
	Setup []string `json:"setup,omitempty"`
	Src   string   `json:"src"`
}

type tInfo struct {
	acted    bool
	consults int
	err      bool
}

func checkTransparent(c TCase, s *rt.Section) (*rt.Failure, tInfo) {
	var info tInfo
	plain := c.Cfg.NewVM()
	runSetup(plain, c.Setup)
	o1 := runOne(plain, c.Src)

	ext := c.Cfg.NewVM()
	rec := newRecorder()
	res, err := install(ext, c.Exts, c.Hooks, rec, handlerMode{})
	if err != nil {
		return s.NewFailure("harness", "harness:install", c, err.Error(), "extensions register"), info
	}
	runSetup(ext, c.Setup)
	setupActed := rec.acted(res)
	rec.reset()
	o2 := runOne(ext, c.Src)
	info.consults = rec.distinctConsults()
	info.err = o1.isErr

	if o1.ceiling || o2.ceiling {
		s.Discard("work-ceiling")
		return nil, info
	}
	if o1.pi != nil {
		// a panic of the plain VM is C01's subject
		s.Discard("plain-vm-panics")
		return nil, info
	}
	if setupActed || rec.acted(res) {
		// a registered syntax matched where the grammar looked for an operand: the extension acts,
		// which the property allows to change anything
		info.acted = true
		return nil, info
	}
	if o2.pi != nil {
		return s.NewFailure("no-panic", o2.pi.Sig(), c, "with the extensions installed: "+o2.pi.Value+"\n"+o2.pi.Stack, "behaves as the plain VM: "+clip(o1.ret+o1.err)), info
	}
	if len(rec.calls) != 0 {
		return s.NewFailure("handler-silent", "transp:handler-called", c, fmt.Sprintf("handler calls %v although no syntax matched", rec.calls), "no handler call"), info
	}
	if o1.isErr != o2.isErr {
		return s.NewFailure("same-outcome", "transp:error-ness", c,
			fmt.Sprintf("with extensions: err=%q ret=%s rest=%q", firstLine(o2.err), clip(o2.ret), o2.rest),
			fmt.Sprintf("plain: err=%q ret=%s rest=%q", firstLine(o1.err), clip(o1.ret), o1.rest)), info
	}
	type cmp struct{ what, a, b string }
	list := []cmp{{"attrs", o1.attrs, o2.attrs}}
	if !o1.isErr {
		list = []cmp{{"ret", o1.ret, o2.ret}, {"rest", o1.rest, o2.rest}, {"matched", o1.matched, o2.matched}, {"detail", o1.detail, o2.detail},
			{"attrs", o1.attrs, o2.attrs}, {"seed", o1.seed, o2.seed}}
	}
	for _, x := range list {
		if x.a != x.b {
			if x.what == "detail" && sameModuloDictOrder(x.a, x.b) {
				s.Class("detail-differs-only-in-dict-order")
				continue
			}
			return s.NewFailure("same-outcome", "transp:"+x.what, c, fmt.Sprintf("with extensions %s = %s", x.what, clip(x.b)),
				fmt.Sprintf("plain VM %s = %s", x.what, clip(x.a))), info
		}
	}
	return nil, info
}

var neverPatterns = []string{`§(\d+)`, `¤+`, `~(\w+)~`, `#(\d+)#`, `\$\$x`, `☆`, `\\d`, `E(\d+)E`, `(?i)zzz(\d*)`}

// emptyPatterns can match the empty string at an operand start; an empty match has always meant "no match"
var emptyPatterns = []string{`Q*`, `(?:#\d+)?`, `§?`, `¤{0,3}`, `\s*`, `(☆\d+)?`, `(?:)`, `~*(\d*)~*Z*`}
var midPatterns = []string{`¤(\d+)|\)(\d*)`, `§+|\]\s*|;\s*(\d*)`, `☆|,\s*`, `¤|[a-z]+\(`, `=\s*\S`, `[,;]\s*\S?`, `[*/%<>|?:]\s*\d*`, `\)\s*`, `\]`, `\}`, `\.\.`, `!=`}
var sometimesPatterns = []string{`E(\d+)|(\d+)E`, `E(\d+)`, `(\d+)!`, `x(\d*)`, `[gh]\d`, `'a'`, `\d+\.\d+`, `true`, `null`, `\[\s*\]`, `-\s*\d+`, `\d+d`, `力量`, `(\d+)X(\d+)`, `[a-z]+\(`, `\d{2,}`, `&\w+`, "`"}

// shadowTemplates: a name that holds null in the scope it is read in but is defined further out (an enclosing
// scope, the host's variables, the built-ins): the lookup continues outwards, with and without hooks.
// {n} a variable name, {b} a built-in function, {v} a value, {r} a result variable.
var shadowTemplates = []string{
	"{n} = {v}; func sf1({n}) { {n} }; {r} = sf1(null)",
	"{n} = {v}; func sf2() { {n} = null; {n} }; {r} = sf2()",
	"{n} = {v}; func sf3({n}) { func sf4() { {n} }; sf4() }; {r} = sf3(null)",
	"{n} = {v}; func sf5({n}) { {n} + 1 }; {r} = sf5(null)",
	"{b} = null; {r} = {b}(1.5)",
	"func sf6({b}) { {b}(2.5) }; {r} = sf6(null)",
	"{n} = null; {r} = {n}",
	"{n} = {v}; func sf7({n}) { if true { {n} = null }; [{n}, {n}] }; {r} = sf7(1)",
	"&{n} = {v}; func sf8({n}) { {n} }; {r} = sf8(null)",
	"{n} = {v}; func sf9({n}) { i = 0; while i < 2 { i = i + 1 }; {n} }; {r} = sf9(null)",
	// a computed value whose evaluation yields another computed value: read once, it stays a computed value
	"&cb = {v}; &ca = &cb; {r} = ca",
	"&ca = (&cb = 3d1); {r} = ca; ca",
	"&cb = {v}; &ca = &cb; {r} = [ca, &ca]; ca",
	"&cb = 2d1; func sf10() { &cb }; &ca = sf10(); {r} = ca",
}

func drawShadow(t *rapid.T) string {
	tpl := rapid.SampledFrom(shadowTemplates).Draw(t, "shadowTpl")
	n := rapid.SampledFrom([]string{"a", "b", "c", "x", "v0", "v1", "hp"}).Draw(t, "shadowName")
	b := rapid.SampledFrom([]string{"ceil", "floor", "round", "int", "str", "abs"}).Draw(t, "shadowBuiltin")
	v := rapid.SampledFrom([]string{"3", "7", "'s'", "[1,2]", "2.5", "d1", "{'k':1}"}).Draw(t, "shadowVal")
	r := rapid.SampledFrom([]string{"r0", "r1", "a"}).Draw(t, "shadowRes")
	return strings.NewReplacer("{n}", n, "{b}", b, "{v}", v, "{r}", r).Replace(tpl)
}

func drawDecl(t *rapid.T) Ext {
	e := Ext{Kind: "decl"}
	n := rapid.IntRange(0, 5).Draw(t, "declOps")
	for i := 0; i < n; i++ {
		op := StreamOp{Op: rapid.SampledFrom([]string{"read", "read", "read", "peek", "unread", "digits", "reset", "obs", "commit", "expr"}).Draw(t, "declOp")}
		if op.Op == "read" || op.Op == "unread" {
			op.N = rapid.IntRange(1, 6).Draw(t, "declN")
		}
		e.Ops = append(e.Ops, op)
	}
	e.End = rapid.SampledFrom([]string{"nomatch", "nomatch", "nil", "nomatch+data", "match0", "unread0"}).Draw(t, "declEnd")
	return e
}

func drawVariant(t *rapid.T) int {
	return rapid.IntRange(0, 31).Draw(t, "variant")
}

func drawHooks(t *rapid.T) Hooks {
	m := rapid.IntRange(0, 63).Draw(t, "hooks")
	if m >= 32 { // half of the cases install everything
		m = 31
	}
	h := Hooks{LoadPre: m&1 != 0, LoadPost: m&2 != 0, Store: m&4 != 0, SpanRewrite: m&8 != 0, DetailRewrite: m&16 != 0}
	if h.LoadPost {
		h.LoadPostLean = rapid.Bool().Draw(t, "loadPostLean")
	}
	return h
}

func drawPassiveExts(t *rapid.T, min, max int) []Ext {
	var out []Ext
	n := rapid.IntRange(min, max).Draw(t, "nExt")
	for i := 0; i < n; i++ {
		switch rapid.IntRange(0, 9).Draw(t, "extKind") {
		case 0:
			out = append(out, Ext{Kind: "re", Pat: rapid.SampledFrom(neverPatterns).Draw(t, "neverPat")})
		case 1:
			out = append(out, Ext{Kind: "re", Pat: rapid.SampledFrom(emptyPatterns).Draw(t, "emptyPat")})
		case 2, 3:
			out = append(out, Ext{Kind: "re", Pat: rapid.SampledFrom(midPatterns).Draw(t, "midPat")})
		case 4:
			out = append(out, Ext{Kind: "re", Pat: rapid.SampledFrom(sometimesPatterns).Draw(t, "somePat")})
		case 5:
			out = append(out, Ext{Kind: "syn", Syn: rapid.SampledFrom(append(append([]string{}, synNames...), analogNames...)).Draw(t, "syn"), Variant: drawVariant(t)})
		default:
			out = append(out, drawDecl(t))
		}
	}
	return out
}

func genOpts(cfg vmx.Cfg, s *rt.Section) gen.Opts {
	o := gen.DefaultOpts()
	o.MaxStmts = 4
	o.MaxDepth = 3
	o.Dice = true
	o.SingleKeyDicts = false // since fix 6269628 a dict prints and lists its entries in key order
	o.CoC, o.WoD, o.Fate, o.DC = cfg.CoC, cfg.WoD, cfg.Fate, cfg.DC
	o.Avoid = s.Avoid
	return o
}

func propTransparent(t *rapid.T, s *rt.Section) {
	c := TCase{Cfg: vmx.DrawCfg(t, true)}
	c.Cfg.OpLimit = opLimit
	o := genOpts(c.Cfg, s)
	env := &gen.Env{}
	if rapid.IntRange(0, 3).Draw(t, "withSetup") == 0 {
		g0 := gen.NewG(t, o, env)
		c.Setup = []string{gen.Print(g0.Program())}
	}
	g := gen.NewG(t, o, env)
	z := &gen.Noise{Vals: rapid.SliceOfN(rapid.IntRange(0, 1000), 0, 12).Draw(t, "noise")}
	c.Src, _ = gen.PrintNoisy(g.Program(), z)
	if rapid.IntRange(0, 3).Draw(t, "withShadow") == 0 {
		c.Src = drawShadow(t) + "; " + c.Src
		s.Class("prelude:null-shadows-outer-name")
	}
	tclass := "none"
	if rapid.IntRange(0, 2).Draw(t, "withTail") == 0 {
		var tail string
		tail, tclass = g.Tail()
		c.Src += tail
	}
	c.Exts = append([]Ext{{Kind: "log"}}, drawPassiveExts(t, 1, 4)...)
	c.Hooks = drawHooks(t)
	s.Eval()
	s.Crumb(c)
	f, info := checkTransparent(c, s)
	s.Class("tail:" + tclass)
	for _, e := range c.Exts[1:] {
		switch e.Kind {
		case "re":
			s.Class("ext:regex")
		case "decl":
			s.Class("ext:decliner/" + e.End)
			for _, op := range e.Ops {
				if op.Op == "expr" {
					s.Class("ext:decliner-ReadExpr")
				}
			}
		case "syn":
			s.Class("ext:syntax-that-finds-nothing")
		}
	}
	if c.Hooks.any() {
		s.Class("hooks:some")
	}
	switch {
	case info.acted:
		s.Class("outcome:a-syntax-matched(not-judged)")
	case info.err:
		s.Class("outcome:both-error")
	default:
		s.Class("outcome:same")
	}
	if !info.acted && info.consults >= 3 {
		h := rt.Hash(c.Src, c.Cfg.SeedHex, fmt.Sprint(c.Exts), fmt.Sprint(c.Hooks))
		s.NonTrivial(h)
		if len(c.Src) < 70 {
			s.Sample(h, map[string]any{"src": c.Src, "exts": c.Exts, "hooks": c.Hooks, "positions_consulted": info.consults})
		}
	}
	s.Report(t, f)
}

// ---------------------------------------------------------------------------
// sections acting / contexts

// Operand is one designated custom operand of a program.
type Operand struct {
	Syn  string `json:"syn"`
	K    int64  `json:"k"`
	J    int64  `json:"j"`
	Text string `json:"text"`
}

type ACase struct {
	Cfg   vmx.Cfg   `json:"cfg"`
	Exts  []Ext     `json:"exts"`
	Hooks Hooks     `json:"hooks"`
	Src   string    `json:"src"` // operands written in the custom syntaxes
	Lit   string    `json:"lit"` // operands written as the integer literals they stand for
	Ref   string    `json:"ref"` // operands written as zq(i), i the index into Ops
	Ops   []Operand `json:"ops"`
	// handler behaviour
	Reuse     bool `json:"reuse,omitempty"`
	MutGroups bool `json:"mutGroups,omitempty"`
	Fallback  bool `json:"fallback,omitempty"` // also compare "" against the explicit fallback text
	FailAt    int  `json:"failAt,omitempty"`
	// Guarded: some operand may sit where the grammar reaches it through a look-ahead predicate
	Guarded bool   `json:"guarded,omitempty"`
	Shape   string `json:"shape,omitempty"`
}

func variantOf(exts []Ext, syn string) int {
	for _, e := range exts {
		if e.Kind == "syn" && e.Syn == syn {
			return e.Variant
		}
	}
	return 0
}

// ambiguous: the source contains text in a registered syntax besides the designated operands.
func ambiguous(src string, exts []Ext, nOps int) bool {
	total := 0
	seen := map[string]bool{}
	for _, e := range exts {
		if e.Kind != "syn" || seen[e.Syn] {
			continue
		}
		seen[e.Syn] = true
		if d := synTable[e.Syn]; d != nil {
			total += len(d.find.FindAllStringIndex(src, -1))
		}
	}
	return total != nOps
}

func retNoText(vm *ds.Context) string {
	if vm.Ret == nil {
		return "<nil>"
	}
	return valNoText(vm.Ret, 0)
}

func notRecognisedSig(prefix string, guarded bool) string {
	if guarded {
		return prefix + ":not-recognised/lookahead-guarded"
	}
	return prefix + ":not-recognised/unguarded"
}

func checkActing(c ACase, s *rt.Section) (f *rt.Failure, calls int) {
	if ambiguous(c.Src, c.Exts, len(c.Ops)) {
		s.Discard("source-contains-undesignated-syntax-text")
		return nil, 0
	}
	// 1. literals on a plain VM: the values
	lit := c.Cfg.NewVM()
	oL := runOne(lit, c.Lit)
	// 2. native function calls on a plain VM: how often, and in which order, each operand is evaluated
	ref := c.Cfg.NewVM()
	var refLog []int
	refFail := false
	ref.Attrs.Store("zq", ds.NewNativeFunctionVal(&ds.NativeFunctionData{Name: "zq", Params: []string{"i"},
		NativeFunc: func(ctx *ds.Context, this *ds.VMValue, params []*ds.VMValue) *ds.VMValue {
			i, _ := params[0].ReadInt()
			refLog = append(refLog, int(i))
			if c.FailAt > 0 && len(refLog) == c.FailAt {
				ctx.Error = errBoom
				refFail = true
				return nil
			}
			if int(i) < 0 || int(i) >= len(c.Ops) {
				return ds.NewIntVal(0)
			}
			return ds.NewIntVal(ds.IntType(c.Ops[i].K))
		}}))
	oR := runOne(ref, c.Ref)
	// 3. the custom syntaxes
	hm := handlerMode{Reuse: c.Reuse, MutGroups: c.MutGroups, FailAt: c.FailAt}
	cus := c.Cfg.NewVM()
	rec := newRecorder()
	if _, err := install(cus, c.Exts, c.Hooks, rec, hm); err != nil {
		return s.NewFailure("harness", "harness:install", c, err.Error(), "extensions register"), 0
	}
	oC := runOne(cus, c.Src)
	calls = len(rec.calls)

	if oL.ceiling || oR.ceiling || oC.ceiling {
		s.Discard("work-ceiling")
		return nil, calls
	}
	if oL.opLimited() || oR.opLimited() || oC.opLimited() {
		s.Discard("operation-budget")
		return nil, calls
	}
	if oL.pi != nil || oR.pi != nil {
		s.Discard("plain-vm-panics")
		return nil, calls
	}
	if oC.pi != nil {
		return s.NewFailure("no-panic", oC.pi.Sig(), c, oC.pi.Value+"\n"+oC.pi.Stack, "no panic"), calls
	}
	if !refFail && oR.isErr != oL.isErr {
		s.Discard("reference-runs-disagree")
		return nil, calls
	}
	wantErr := oL.isErr || refFail
	if oC.isErr != wantErr || (!oC.isErr && oC.rest != oL.rest) {
		sig := "act:error-ness"
		if c.Guarded || ((oC.isErr || strings.TrimSpace(oC.rest) != "") && !wantErr && len(rec.calls) < len(refLog)) {
			// the operand text was not taken as the custom syntax: syntax error or unparsed rest
			sig = notRecognisedSig("act", c.Guarded)
		}
		return s.NewFailure("same-outcome", sig, c,
			fmt.Sprintf("custom syntax: %q -> err=%q ret=%s rest=%q handler calls=%d", c.Src, firstLine(oC.err), clip(oC.ret), oC.rest, len(rec.calls)),
			fmt.Sprintf("literals: %q -> err=%q ret=%s rest=%q; operand evaluations=%d", c.Lit, firstLine(oL.err), clip(oL.ret), oL.rest, len(refLog))), calls
	}
	// handler log against the reference call log
	want := make([]callRec, 0, len(refLog))
	for _, i := range refLog {
		if i < 0 || i >= len(c.Ops) {
			continue
		}
		op := c.Ops[i]
		d := synTable[op.Syn]
		v := variantOf(c.Exts, op.Syn)
		w := callRec{Syn: op.Syn, Groups: d.groups(op.Text, op.K, op.J, v)}
		if d.stream {
			w.Payload = fmt.Sprintf("{%d,%d}", op.K, op.J)
		}
		want = append(want, w)
	}
	if len(rec.calls) != len(want) {
		return s.NewFailure("once-per-evaluation", "act:call-count", c, fmt.Sprintf("%d handler calls: %v", len(rec.calls), rec.calls),
			fmt.Sprintf("%d evaluations of the operands: %v", len(want), want)), calls
	}
	for i := range want {
		g, w := rec.calls[i], want[i]
		if g.Syn != w.Syn {
			return s.NewFailure("once-per-evaluation", "act:call-order", c, fmt.Sprintf("call %d is %v", i, g), w.String()), calls
		}
		if strings.Join(g.Groups, "\x00") != strings.Join(w.Groups, "\x00") || len(g.Groups) != len(w.Groups) {
			return s.NewFailure("exact-groups", "act:groups", c, fmt.Sprintf("call %d received groups %q", i, g.Groups), fmt.Sprintf("%q", w.Groups)), calls
		}
		if g.Payload != w.Payload {
			return s.NewFailure("exact-groups", "act:payload", c, fmt.Sprintf("call %d received payload %s", i, g.Payload), w.Payload), calls
		}
	}
	if c.FailAt > 0 && refFail {
		if !strings.Contains(oC.err, "boom") {
			return s.NewFailure("same-outcome", "act:handler-error-lost", c, "error: "+firstLine(oC.err), "the handler's error"), calls
		}
		return nil, calls
	}
	// values
	type cmp struct{ what, a, b string }
	list := []cmp{{"attrs", oL.attrsNT, oC.attrsNT}}
	if !oL.isErr {
		list = append([]cmp{{"ret", retNoText(lit), retNoText(cus)}, {"seed", oL.seed, oC.seed}}, list...)
	}
	for _, x := range list {
		if x.a != x.b {
			return s.NewFailure("value-used", "act:"+x.what, c, fmt.Sprintf("custom syntax: %s = %s", x.what, clip(x.b)),
				fmt.Sprintf("literals: %s = %s", x.what, clip(x.a))), calls
		}
	}
	// the object the handler handed out is still what the handler made it
	if c.Reuse && rec.sharedUsed && (rec.shared.TypeId != rec.lastSet.TypeId || rec.shared.Value != rec.lastSet.Value) {
		return s.NewFailure("by-copy", "act:result-object-mutated", c, fmt.Sprintf("the handler's value object is now %s", vmx.Repr(rec.shared)),
			"unchanged: "+vmx.Repr(&rec.lastSet)), calls
	}
	// "" as process text means the matched text (or Display)
	usesDisplay := false
	for _, op := range c.Ops {
		if synTable[op.Syn].stream && variantOf(c.Exts, op.Syn)&vDisplay != 0 {
			usesDisplay = true // what Display means for the process text is not documented: not asserted
		}
	}
	if c.Fallback && !oC.isErr && !usesDisplay {
		exp := c.Cfg.NewVM()
		rec2 := newRecorder()
		hm2 := hm
		hm2.Text = "explicit"
		if _, err := install(exp, c.Exts, c.Hooks, rec2, hm2); err == nil {
			oE := runOne(exp, c.Src)
			if oE.pi == nil && !oE.isErr && oE.detail != oC.detail && !sameModuloDictOrder(oE.detail, oC.detail) {
				return s.NewFailure("fallback-text", "act:fallback-text", c, fmt.Sprintf("handler returns \"\": process text %q", clip(oC.detail)),
					fmt.Sprintf("as when it returns the matched text itself: %q", clip(oE.detail))), calls
			}
		}
	}
	return nil, calls
}

// ---------------------------------------------------------------------------
// programs with designated operands

// eligible collects the integer literals of a generated program that can be written as a
// custom operand: everywhere an operand is parsed by the operand rule, i.e. not as a dict
// key (an identifier-like text there is a key name) and not as a slice bound (the printer
// separates an identifier-like bound from ':' by a blank, which only identifiers swallow).
func eligible(n *gen.Node, blocked bool, out *[]*gen.Node) {
	if n == nil {
		return
	}
	switch n.K {
	case "int":
		if !blocked {
			*out = append(*out, n)
		}
		return
	case "dict":
		for i, k := range n.Kids {
			eligible(k, blocked || i%2 == 0, out)
		}
		return
	case "slice":
		eligible(n.Kids[0], blocked, out)
		eligible(n.Kids[1], true, out)
		eligible(n.Kids[2], true, out)
		return
	case "setslice":
		eligible(n.Kids[0], blocked, out)
		eligible(n.Kids[1], true, out)
		eligible(n.Kids[2], true, out)
		eligible(n.Kids[3], blocked, out)
		return
	}
	for _, k := range n.Kids {
		eligible(k, blocked, out)
	}
}

// safeGen builds programs in which every integer literal sits where the grammar reaches an
// operand without passing through a look-ahead predicate that must see past it: statement
// level sums of products, comparisons and logic without parentheses, plain and computed
// assignments of those, if/while heads and bodies, function bodies, a template hole or a
// dict value at statement level.  (No parentheses, lists, indexes, call arguments, ternaries.)
type safeGen struct {
	t      *rapid.T
	leaves []*gen.Node
	vars   []string
	funcs  []string
	seq    int
	shape  []string
	// section restored
	body   map[*gen.Node]bool // leaves inside a function or computed body
	inBody int
	force  int // kind+1 of the next statements (0 = drawn)
}

func (g *safeGen) lit(max int) *gen.Node {
	n := gen.Int(int64(rapid.IntRange(0, max).Draw(g.t, "lit")))
	g.leaves = append(g.leaves, n)
	if g.inBody > 0 && g.body != nil {
		g.body[n] = true
	}
	return n
}

func (g *safeGen) leaf() *gen.Node {
	k := rapid.IntRange(0, 9).Draw(g.t, "leafKind")
	switch {
	case k <= 1 && len(g.vars) > 0:
		return gen.Var(rapid.SampledFrom(g.vars).Draw(g.t, "leafVar"))
	case k == 2 && len(g.funcs) > 0:
		// the argument is a call argument (look-ahead guarded): a plain literal that is not designated
		return gen.Call(gen.Var(rapid.SampledFrom(g.funcs).Draw(g.t, "leafFn")), gen.Int(int64(rapid.IntRange(0, 3).Draw(g.t, "arg"))))
	case k == 3:
		return gen.N("neg", g.lit(9))
	}
	return g.lit(12)
}

func (g *safeGen) product() *gen.Node {
	n := g.leaf()
	for i := rapid.IntRange(0, 2).Draw(g.t, "factors"); i > 0; i-- {
		n = gen.Bin("*", n, g.leaf())
	}
	return n
}

func (g *safeGen) sum() *gen.Node { return g.sumFrom(g.product()) }

// sumFrom continues a sum to the right, so that the printer needs no parentheses.
func (g *safeGen) sumFrom(n *gen.Node) *gen.Node {
	for i := rapid.IntRange(0, 2).Draw(g.t, "terms"); i > 0; i-- {
		n = gen.Bin(rapid.SampledFrom([]string{"+", "-"}).Draw(g.t, "addop"), n, g.product())
	}
	return n
}

func (g *safeGen) flat() *gen.Node {
	switch rapid.IntRange(0, 9).Draw(g.t, "flatTop") {
	case 0:
		l := g.sum()
		return gen.Bin(rapid.SampledFrom([]string{"<", "<=", "==", "!=", ">=", ">"}).Draw(g.t, "cmp"), l, g.sum())
	case 1:
		l := g.sum()
		return gen.Bin(rapid.SampledFrom([]string{"||", "&&"}).Draw(g.t, "logic"), l, g.sum())
	case 2:
		// ?? binds tighter than * : both sides stay at operand level
		l := g.leaf()
		return gen.Bin("??", l, g.leaf())
	}
	return g.sum()
}

func (g *safeGen) name(prefix string) string {
	g.seq++
	return fmt.Sprintf("%s%d", prefix, g.seq)
}

func (g *safeGen) stmts(depth, max int) []*gen.Node {
	var out []*gen.Node
	n := rapid.IntRange(1, max).Draw(g.t, "nStmts")
	for i := 0; i < n; i++ {
		kind := rapid.IntRange(0, 11).Draw(g.t, "stmtKind")
		if depth >= 2 && kind >= 5 && kind <= 8 {
			kind = 1
		}
		if g.force > 0 {
			kind = g.force - 1
		}
		switch kind {
		case 0:
			out = append(out, g.flat())
			g.shape = append(g.shape, "expr")
		case 1, 2, 3:
			v := g.name("v")
			out = append(out, gen.Set(v, g.flat()))
			g.vars = append(g.vars, v)
			g.shape = append(g.shape, "assign")
		case 4:
			v := g.name("w")
			g.inBody++
			out = append(out, gen.NS("setc", v, g.flat()))
			g.inBody--
			g.vars = append(g.vars, v) // every later read evaluates the expression again
			g.shape = append(g.shape, "computed")
		case 5:
			cond := g.flat()
			thenB := gen.Block(g.stmts(depth+1, 2)...)
			els := gen.None()
			if rapid.Bool().Draw(g.t, "else") {
				els = gen.Block(g.stmts(depth+1, 2)...)
			}
			out = append(out, gen.N("if", cond, thenB, els))
			g.shape = append(g.shape, "if")
		case 6:
			i, acc := g.name("i"), g.name("s")
			out = append(out, gen.Set(i, g.lit(1)), gen.Set(acc, gen.Int(0)))
			body := []*gen.Node{gen.Set(acc, g.sumFrom(gen.Bin("+", gen.Var(acc), g.product())))}
			if rapid.Bool().Draw(g.t, "loopMore") {
				body = append(body, g.stmts(depth+1, 1)...)
			}
			body = append(body, gen.Set(i, gen.Bin("+", gen.Var(i), gen.Int(1))))
			out = append(out, gen.N("while", gen.Bin("<", gen.Var(i), g.lit(3)), gen.Block(body...)))
			g.vars = append(g.vars, acc)
			g.shape = append(g.shape, "loop")
		case 7:
			f := g.name("fn")
			saved := g.vars
			g.vars = []string{"n"}
			g.inBody++
			force := g.force
			g.force = 0
			body := g.stmts(depth+1, 2)
			body = append(body, g.sumFrom(gen.Bin("+", gen.Var("n"), g.product())))
			g.force = force
			g.inBody--
			g.vars = saved
			out = append(out, &gen.Node{K: "func", S: f, Names: []string{"n"}, Kids: []*gen.Node{gen.Block(body...)}})
			g.funcs = append(g.funcs, f)
			g.shape = append(g.shape, "func")
		case 8:
			out = append(out, &gen.Node{K: "tmpl", Q: 2, Kids: []*gen.Node{{K: "part", S: "a"}, {K: "hole", Kids: []*gen.Node{g.flat()}}, {K: "part", S: "b"}}})
			g.shape = append(g.shape, "template-hole")
		case 9:
			out = append(out, gen.N("dict", gen.Str("k", 0), g.flat()))
			g.shape = append(g.shape, "dict-value")
		default:
			out = append(out, g.flat())
			g.shape = append(g.shape, "expr")
		}
	}
	return out
}

func (g *safeGen) program() *gen.Node {
	st := g.stmts(0, 4)
	st = append(st, g.flat())
	return gen.Prog(st...)
}

// designate rewrites a drawn subset of the leaves and prints the program three ways.
func designate(t *rapid.T, prog *gen.Node, leaves []*gen.Node, syns []string, noise []int, parenNoise bool) (src, lit, ref string, ops []Operand) {
	print := func() string {
		p := &gen.Printer{Z: &gen.Noise{Vals: noise}, BareNewline: true, NoParenNoise: !parenNoise}
		p.Node(prog)
		return p.String()
	}
	lit = print()
	var chosen []*gen.Node
	for _, l := range leaves {
		if rapid.IntRange(0, 2).Draw(t, "designate") != 0 {
			chosen = append(chosen, l)
		}
	}
	if len(chosen) == 0 && len(leaves) > 0 {
		chosen = append(chosen, leaves[rapid.IntRange(0, len(leaves)-1).Draw(t, "designateOne")])
	}
	if len(chosen) > 12 {
		chosen = chosen[:12]
	}
	for _, l := range chosen {
		d := synTable[rapid.SampledFrom(syns).Draw(t, "opSyn")]
		op := Operand{Syn: d.name, K: l.I, J: -1}
		if d.hasJ && (!d.optJ || rapid.Bool().Draw(t, "withJ")) {
			op.J = int64(rapid.IntRange(0, 30).Draw(t, "opJ"))
		}
		op.Text = d.text(op.K, op.J)
		ops = append(ops, op)
	}
	for i, l := range chosen {
		l.K, l.S = "xdice", ops[i].Text
	}
	src = print()
	for i, l := range chosen {
		l.K, l.S = "call", ""
		l.Kids = []*gen.Node{gen.Var("zq"), gen.Int(int64(i))}
	}
	ref = print()
	for i, l := range chosen {
		l.K, l.S, l.Kids, l.I = "int", "", nil, ops[i].K
	}
	return
}

func synExts(t *rapid.T, used []string) []Ext {
	// the syntaxes in use, other syntaxes that find nothing, passive extras, in a drawn order
	var exts []Ext
	seen := map[string]bool{}
	for _, n := range used {
		if !seen[n] {
			seen[n] = true
			exts = append(exts, Ext{Kind: "syn", Syn: n, Variant: drawVariant(t)})
		}
	}
	exts = append(exts, drawPassiveExts(t, 0, 2)...)
	// passive "sometimes" regexes and foreign syntaxes could match an operand: keep only those that cannot
	kept := exts[:0]
	for _, e := range exts {
		if e.Kind == "re" {
			ok := false
			for _, p := range neverPatterns {
				if p == e.Pat {
					ok = true
				}
			}
			if !ok {
				continue
			}
		}
		if e.Kind == "syn" && !seen[e.Syn] {
			continue
		}
		kept = append(kept, e)
	}
	exts = kept
	perm := rapid.Permutation(exts).Draw(t, "extOrder")
	if rapid.Bool().Draw(t, "withLogger") {
		perm = append([]Ext{{Kind: "log"}}, perm...)
	}
	return perm
}

func propActing(t *rapid.T, s *rt.Section) {
	c := ACase{Cfg: vmx.DrawCfg(t, true)}
	c.Cfg.OpLimit = opLimit
	noise := rapid.SliceOfN(rapid.IntRange(0, 1000), 0, 12).Draw(t, "noise")
	var prog *gen.Node
	var leaves []*gen.Node
	full := rapid.IntRange(0, 2).Draw(t, "fullProgram") != 0
	if full && s.Avoid(avoidSwitch) {
		full = false
	}
	if full {
		o := genOpts(c.Cfg, s)
		g := gen.NewG(t, o, &gen.Env{})
		prog = g.Program()
		eligible(prog, false, &leaves)
		c.Guarded = true
		c.Shape = "generated-program"
	}
	if !full || len(leaves) == 0 {
		sg := &safeGen{t: t}
		prog = sg.program()
		leaves = sg.leaves
		c.Guarded = false
		c.Shape = "unguarded:" + strings.Join(uniq(sg.shape), ",")
		full = false
	}
	nSyn := rapid.IntRange(1, 3).Draw(t, "nSyn")
	var syns []string
	for i := 0; i < nSyn; i++ {
		syns = append(syns, rapid.SampledFrom(synNames).Draw(t, "synName"))
	}
	c.Src, c.Lit, c.Ref, c.Ops = designate(t, prog, leaves, syns, noise, full)
	if !full && !unguardedShape(c.Lit) {
		s.Report(t, s.NewFailure("harness", "harness:safe-shape", c, c.Lit, "no brackets in a program of unguarded shapes"))
	}
	var used []string
	for _, op := range c.Ops {
		used = append(used, op.Syn)
	}
	c.Exts = synExts(t, used)
	c.Hooks = drawHooks(t)
	c.Reuse = rapid.Bool().Draw(t, "reuse")
	c.MutGroups = rapid.Bool().Draw(t, "mutGroups")
	c.Fallback = rapid.IntRange(0, 2).Draw(t, "fallback") == 0
	if rapid.IntRange(0, 7).Draw(t, "failing") == 0 {
		c.FailAt = rapid.IntRange(1, 4).Draw(t, "failAt")
	}
	s.Eval()
	s.Crumb(c)
	f, calls := checkActing(c, s)
	if full {
		s.Class("program:generated")
	} else {
		s.Class("program:unguarded-shapes")
	}
	for _, sy := range uniq(used) {
		s.Class("syntax:" + sy)
	}
	switch {
	case calls == 0:
		s.Class("handler-calls:0")
	case calls == len(c.Ops):
		s.Class("handler-calls:=operands")
	case calls > len(c.Ops):
		s.Class("handler-calls:>operands(loops,functions,computed)")
	default:
		s.Class("handler-calls:<operands(branches)")
	}
	if c.FailAt > 0 {
		s.Class("handler-error-injected")
	}
	if calls > 0 {
		h := rt.Hash(c.Src, c.Cfg.SeedHex, fmt.Sprint(c.Exts))
		s.NonTrivial(h)
		if len(c.Src) < 90 {
			s.Sample(h, map[string]any{"src": c.Src, "lit": c.Lit, "exts": c.Exts, "handler_calls": calls})
		}
	}
	s.Report(t, f)
}

var safeCallRe = regexp.MustCompile(`fn\d+\s*\(\s*n?\d*\s*\)`)

// unguardedShape reports whether a printed program of safeGen really has no bracket, index,
// call argument or ternary around an operand (a check of the generator, not of /repo).
func unguardedShape(src string) bool {
	rest := strings.ReplaceAll(safeCallRe.ReplaceAllString(src, ""), "??", "")
	return !strings.ContainsAny(rest, "()[]?")
}

func uniq(in []string) []string {
	seen := map[string]bool{}
	var out []string
	for _, x := range in {
		if !seen[x] {
			seen[x] = true
			out = append(out, x)
		}
	}
	sort.Strings(out)
	return out
}

// ---------------------------------------------------------------------------
// section analog

type XCase struct {
	Cfg   vmx.Cfg `json:"cfg"` // Mode is min or max
	Exts  []Ext   `json:"exts"`
	Hooks Hooks   `json:"hooks"`
	SrcX  string  `json:"srcX"` // <n>X<m>
	SrcD  string  `json:"srcD"` // <n>d<m>
	NOps  int     `json:"nOps"`
	Reuse bool    `json:"reuse,omitempty"`
	// Guarded as in ACase
	Guarded bool   `json:"guarded,omitempty"`
	Shape   string `json:"shape,omitempty"`
}

func checkAnalog(c XCase, s *rt.Section) (f *rt.Failure, calls int) {
	if strings.Count(c.SrcX, "X") != c.NOps || strings.ReplaceAll(c.SrcX, "X", "d") != c.SrcD {
		s.Discard("source-contains-undesignated-syntax-text")
		return nil, 0
	}
	plain := c.Cfg.NewVM()
	oD := runOne(plain, c.SrcD)
	ext := c.Cfg.NewVM()
	rec := newRecorder()
	if _, err := install(ext, c.Exts, c.Hooks, rec, handlerMode{Reuse: c.Reuse, Analog: c.Cfg.Mode}); err != nil {
		return s.NewFailure("harness", "harness:install", c, err.Error(), "extensions register"), 0
	}
	oX := runOne(ext, c.SrcX)
	calls = len(rec.calls)
	if oD.ceiling || oX.ceiling {
		s.Discard("work-ceiling")
		return nil, calls
	}
	if oD.opLimited() || oX.opLimited() {
		s.Discard("operation-budget") // dice are charged to the budget, handler calls are not
		return nil, calls
	}
	if oD.pi != nil {
		s.Discard("plain-vm-panics")
		return nil, calls
	}
	if oX.pi != nil {
		return s.NewFailure("no-panic", oX.pi.Sig(), c, oX.pi.Value+"\n"+oX.pi.Stack, "no panic"), calls
	}
	toD := func(x string) string { return strings.ReplaceAll(x, "X", "d") }
	if oD.isErr != oX.isErr || (!oD.isErr && toD(oX.rest) != oD.rest) {
		sig := "analog:error-ness"
		if c.Guarded || (!oD.isErr && (oX.isErr || strings.TrimSpace(oX.rest) != "")) {
			sig = notRecognisedSig("analog", c.Guarded)
		}
		return s.NewFailure("same-as-dice", sig, c,
			fmt.Sprintf("custom: %q -> err=%q ret=%s rest=%q", c.SrcX, firstLine(oX.err), clip(oX.ret), oX.rest),
			fmt.Sprintf("dice: %q -> err=%q ret=%s rest=%q", c.SrcD, firstLine(oD.err), clip(oD.ret), oD.rest)), calls
	}
	type cmp struct{ what, a, b string }
	list := []cmp{{"attrs", oD.attrs, toD(oX.attrs)}}
	if !oD.isErr {
		list = append([]cmp{{"ret", oD.ret, toD(oX.ret)}, {"matched", oD.matched, toD(oX.matched)}, {"detail", oD.detail, toD(oX.detail)}, {"seed", oD.seed, oX.seed}}, list...)
	}
	for _, x := range list {
		if x.a != x.b {
			if x.what == "detail" && sameModuloDictOrder(x.a, x.b) {
				s.Class("detail-differs-only-in-dict-order")
				continue
			}
			return s.NewFailure("same-as-dice", "analog:"+x.what, c, fmt.Sprintf("custom <n>X<m>: %s = %s", x.what, clip(x.b)),
				fmt.Sprintf("built-in <n>d<m>: %s = %s", x.what, clip(x.a))), calls
		}
	}
	if c.Reuse && rec.sharedUsed && (rec.shared.TypeId != rec.lastSet.TypeId || rec.shared.Value != rec.lastSet.Value) {
		return s.NewFailure("by-copy", "analog:result-object-mutated", c, fmt.Sprintf("the handler's value object is now %s", vmx.Repr(rec.shared)),
			"unchanged: "+vmx.Repr(&rec.lastSet)), calls
	}
	return nil, calls
}

func propAnalog(t *rapid.T, s *rt.Section) {
	c := XCase{Cfg: vmx.DrawCfg(t, true)}
	c.Cfg.OpLimit = opLimit
	c.Cfg.Mode = rapid.SampledFrom([]string{"min", "max"}).Draw(t, "mode")
	noise := rapid.SliceOfN(rapid.IntRange(0, 1000), 0, 12).Draw(t, "noise")
	var prog *gen.Node
	var leaves []*gen.Node
	full := rapid.IntRange(0, 2).Draw(t, "fullProgram") != 0
	if full && s.Avoid(avoidSwitch) {
		full = false
	}
	if full {
		o := genOpts(c.Cfg, s)
		g := gen.NewG(t, o, &gen.Env{})
		prog = g.Program()
		eligible(prog, false, &leaves)
		c.Guarded = true
		c.Shape = "generated-program"
	}
	if !full || len(leaves) == 0 {
		sg := &safeGen{t: t}
		prog = sg.program()
		leaves = sg.leaves
		c.Guarded = false
		c.Shape = "unguarded:" + strings.Join(uniq(sg.shape), ",")
		full = false
	}
	// only small positive literals become dice counts
	var small []*gen.Node
	for _, l := range leaves {
		if l.I >= 1 && l.I <= 12 {
			small = append(small, l)
		}
	}
	syn := rapid.SampledFrom(analogNames).Draw(t, "analogSyn")
	print := func() string {
		p := &gen.Printer{Z: &gen.Noise{Vals: noise}, BareNewline: true, NoParenNoise: !full}
		p.Node(prog)
		return p.String()
	}
	var chosen []*gen.Node
	for _, l := range small {
		if rapid.IntRange(0, 2).Draw(t, "designate") != 0 && len(chosen) < 10 {
			chosen = append(chosen, l)
		}
	}
	if len(chosen) == 0 && len(small) > 0 {
		chosen = append(chosen, small[0])
	}
	saved := make([]int64, len(chosen))
	for i, l := range chosen {
		saved[i] = l.I
		m := int64(1)
		if rapid.IntRange(0, 2).Draw(t, "sidesNot1") == 0 {
			m = int64(rapid.IntRange(2, 6).Draw(t, "sides"))
		}
		l.K, l.S = "xdice", itoa(l.I)+"X"+itoa(m)
	}
	c.SrcX = print()
	for _, l := range chosen {
		l.S = strings.Replace(l.S, "X", "d", 1)
	}
	c.SrcD = print()
	for i, l := range chosen {
		l.K, l.S, l.I = "int", "", saved[i]
	}
	c.NOps = len(chosen)
	if !full && !unguardedShape(c.SrcD) {
		s.Report(t, s.NewFailure("harness", "harness:safe-shape", c, c.SrcD, "no brackets in a program of unguarded shapes"))
	}
	c.Exts = synExts(t, []string{syn})
	c.Hooks = drawHooks(t)
	c.Reuse = rapid.Bool().Draw(t, "reuse")
	s.Eval()
	s.Crumb(c)
	f, calls := checkAnalog(c, s)
	if full {
		s.Class("program:generated")
	} else {
		s.Class("program:unguarded-shapes")
	}
	s.Class("syntax:" + syn)
	s.Class("mode:" + c.Cfg.Mode)
	if calls > 0 {
		h := rt.Hash(c.SrcX, c.Cfg.Mode, fmt.Sprint(c.Exts))
		s.NonTrivial(h)
		if len(c.SrcX) < 90 {
			s.Sample(h, map[string]any{"srcX": c.SrcX, "exts": c.Exts, "handler_calls": calls})
		}
	} else {
		s.Class("handler-calls:0")
	}
	s.Report(t, f)
}

// ---------------------------------------------------------------------------
// section contexts (bounded exhaustive)

type ctxT struct {
	tmpl    string // § marks an operand
	guarded bool   // the grammar reaches the operand through a look-ahead predicate that must see past it
}

var contexts = []ctxT{
	{"§", false}, {"§+1", false}, {"1 + §", false}, {"-§", false}, {"+§", false}, {"§*§", false}, {"§ - § * 2", false}, {"2 ** §", false},
	{"§ < 3", false}, {"§ == §", false}, {"0 || §", false}, {"§ || 1", false}, {"1 && §", false}, {"null ?? §", false}, {"§ | 1", false}, {"3 & §", false},
	{"x = §", false}, {"x = 1 + §; x", false}, {"x = §; y = x + §; y", false}, {"&c = §; c", false}, {"&c = § + 1; c + c", false},
	{"if § { 1 }", false}, {"if 1 { § }", false}, {"if 0 { 1 } else { § }", false}, {"if § > 0 { x = § } else { x = § }; x", false},
	{"i=0;s=0; while i<3 { s = s + §; i=i+1 }; s", false}, {"i=0; while i<§ { i=i+1 }; i", false},
	{"func g(n){n+§}; g(1)+g(2)", false}, {"func g(n){ if n > 0 { return § }; § }; g(0) + g(1)", false},
	{"{'a': §}", false}, {"`a{§}b`", false}, {"`{§}{§}`", false}, {"§;§", false}, {"§ ; x = § ;x", false},
	// look-ahead guarded
	{"(§)", true}, {"(§)+1", true}, {"2*(§+1)", true}, {"[§]", true}, {"[§, 2]", true}, {"[1, §]", true}, {"x = [§]; x", true}, {"x = (§)", true},
	{"§ ? 1 : 2", true}, {"1 ? § : 2", true}, {"0 ? 1 : §", true}, {"§ ? 5", true}, {"0 ? 1, 1 ? §", true},
	{"func g(n){n}; g(§)", true}, {"func g(n,m){n+m}; g(1, §)", true}, {"floor(§)", true},
	{"x=[9,8,7,6,5]; x[§]", true}, {"x=[9,8,7,6,5]; x[§] = 3; x", true}, {"x=[9,8,7,6,5]; x[§:]", true}, {"x=[9,8,7,6,5]; x[:§]", true}, {"[1,2,3][§]", true},
	{"[§..3]", true}, {"[0..§]", true}, {"2d(§)", true}, {"(§)d6", true}, {"[3,§]kh", true}, {"[§].len()", true},
	{"x = {'a': §}; x", true}, {"x = `a{§}b`", true}, {"{'a': [§]}", true}, {"x = 1 ? § : 3", true}, {"i=0; while (i<§) { i=i+1 }; i", true},
}

func buildCtxCase(tmpl string, guarded bool, syn string, v int, k int64, hooks Hooks) ACase {
	d := synTable[syn]
	c := ACase{Cfg: vmx.Cfg{Mode: "min", OpLimit: opLimit}, Guarded: guarded, Shape: tmpl, Hooks: hooks, Reuse: true, MutGroups: true, Fallback: true}
	c.Exts = []Ext{{Kind: "log"}, {Kind: "decl", Ops: []StreamOp{{Op: "read", N: 3}}, End: "nomatch"}, {Kind: "syn", Syn: syn, Variant: v}, {Kind: "re", Pat: `§(\d+)`}}
	parts := strings.Split(tmpl, "§")
	var src, lit, ref strings.Builder
	for i, p := range parts {
		src.WriteString(p)
		lit.WriteString(p)
		ref.WriteString(p)
		if i == len(parts)-1 {
			break
		}
		kk := k + int64(i)
		if kk > 2 {
			kk = 1
		}
		op := Operand{Syn: syn, K: kk, J: -1}
		if d.hasJ && (!d.optJ || i%2 == 0) {
			op.J = int64(3 + i)
		}
		op.Text = d.text(op.K, op.J)
		src.WriteString(op.Text)
		lit.WriteString(itoa(op.K))
		fmt.Fprintf(&ref, "zq(%d)", len(c.Ops))
		c.Ops = append(c.Ops, op)
	}
	c.Src, c.Lit, c.Ref = src.String(), lit.String(), ref.String()
	return c
}

func enumContexts(s *rt.Section, run *rt.Run) {
	s.Exhaustive = true
	s.Bounds = fmt.Sprintf("%d context templates (operand at statement level, after every operator class, in assignments, computed values, if/while heads and bodies, function bodies, template holes, dict values; and inside parentheses, lists, call arguments, indexes, slices, ranges, dice operands, ternaries) x %d syntaxes (4 regex, 4 stream) x stream variants {0, no-reset+nil-groups+display+nil-decline, void-group0} x first value {1, 2} x hooks {none, all}",
		len(contexts), len(synNames))
	avoid := s.Avoid(avoidSwitch)
	n := 0
	for ci, ctx := range contexts {
		for _, syn := range synNames {
			variants := []int{0}
			if synTable[syn].stream {
				variants = []int{0, vNoReset | vGroupsNil | vDisplay | vDeclineNil, vGroups0Void}
			}
			for _, v := range variants {
				for k := int64(1); k <= 2; k++ {
					for hk := 0; hk < 2; hk++ {
						n++
						if n%run.Env.NShards != run.Env.Shard {
							continue
						}
						if ctx.guarded && avoid {
							s.Exclude(avoidSwitch)
							continue
						}
						hooks := Hooks{}
						if hk == 1 {
							hooks = Hooks{LoadPre: true, LoadPost: true, Store: true, SpanRewrite: true, DetailRewrite: true}
						}
						c := buildCtxCase(ctx.tmpl, ctx.guarded, syn, v, k, hooks)
						s.Eval()
						f, calls := checkActing(c, s)
						if ctx.guarded {
							s.Class("context:lookahead-guarded")
						} else {
							s.Class("context:unguarded")
						}
						if calls > 0 {
							s.NonTrivial(rt.Hash(c.Src, syn, fmt.Sprint(v, hk)))
						}
						if ci%9 == 0 && k == 1 && hk == 0 && v == 0 {
							s.Sample(rt.Hash(c.Src), map[string]any{"src": c.Src, "handler_calls": calls})
						}
						if s.Report(nil, f) {
							return
						}
					}
				}
			}
		}
	}
}

// ---------------------------------------------------------------------------

func TestProp(t *testing.T) {
	run := rt.Begin(t, "C17")
	defer run.Finish()

	run.Enum("contexts", "every context template x syntax x variant x value x hook set; per case three runs: the operands written as literals (values), as calls of a native function (which operand is evaluated when), and in the custom syntax; oracle: same error-ness/rest/value/variables/generator state as the literals, handler log = reference call log with exactly the matched text, groups and payload, handler's reused value object untouched, \"\" as process text = the matched text; non-trivial = at least one handler call; distinct by source, syntax, variant",
		func(s *rt.Section) { enumContexts(s, run) })

	run.Enum("lookahead", fmt.Sprintf("%d fixed programs with an operand of a stream parser that matches L<digits> only when the next character is ! or ~ and hands that character back: handler called exactly once with the matched text, value 2*digits combined as written, the mark and what follows as rest text — whether or not text follows the operand; non-trivial = every case; distinct by source", len(lookaheadCases)),
		func(s *rt.Section) {
			s.Exhaustive = true
			s.Bounds = fmt.Sprintf("%d fixed programs", len(lookaheadCases))
			for i, c := range lookaheadCases {
				if i%run.Env.NShards != run.Env.Shard {
					continue
				}
				s.Eval()
				s.NonTrivial(rt.Hash(c.Src))
				s.Sample(rt.Hash(c.Src), c)
				if s.Report(nil, checkLookahead(c, s)) {
					return
				}
			}
		})

	run.Check("transparent", 7000, 64000,
		"generated program (all constructs, seeded dice of the enabled families; 1/3 with a broken-off tail, 1/4 after a set-up program) on a plain VM and on a VM with: a logging stream parser, 1-4 of {regex over a foreign alphabet, regex that can only match in the middle of an operand, regex that matches some operands, a named syntax, a stream parser reading ahead by Read/Peek/Unread/ReadDigits/ReadExpr and declining by nil / Matched=false / Matched with nothing consumed, with or without ResetAttempt}, and a drawn subset of pass-through HookValueLoadPre/LoadPost/Store and identity detail rewriters. When no syntax matched at a consulted position (decided from the logged consultations): equal error-ness, Ret, Matched, RestInput, process text, variables, generator state, and no handler call. Non-trivial = nothing matched and the custom syntaxes were consulted at >= 3 distinct positions; distinct by source, seed, extension set",
		propTransparent)

	run.Check("acting", 4500, 44000,
		"program = generated program whose integer literals (not dict keys, not slice bounds) are eligible, or (1/3 of the cases; always while an open finding asks to keep custom operands out of look-ahead guarded positions) a program of unguarded shapes; a drawn subset of the literals is written in 1-3 of 8 matching syntaxes (regex E<k>, <k>!, 骰<k>点, Q<k>[_<j>]; stream C<k>T<j>, @<k>, 掷<k>, Z<k> with read-ahead) registered in drawn order among passive extensions, handlers that reuse one value object / scribble over their groups / fail at the n-th call. Oracle as in contexts. Non-trivial = at least one handler call; distinct by source, seed, extension set",
		propActing)

	run.Check("restored", 2000, 16000,
		"definitions (at least one function and one computed value of unguarded shapes, custom operands inside their bodies) run on a VM with the syntaxes registered; its variables go through Attrs.ToJSON / UnmarshalJSON into a fresh VM with the same syntaxes registered; a use program (sums, products, comparisons of those functions, computed values and further custom operands) is then evaluated by both. Oracle: same error-ness, Ret, rest, process text, variables and handler log. Non-trivial = at least one handler call in the defining VM; distinct by definitions, use program, extension set",
		propRestored)

	run.Check("analog", 4500, 32000,
		"as acting, but the operands are <n>X<m> (regex or stream parser) whose handler returns exactly what the built-in <n>d<m> yields under the configured min/max mode (value and text); the run is compared with the same source written with d on a plain VM: error-ness, Ret, Matched, RestInput, process text, variables (after renaming X to d), generator state. Non-trivial = at least one handler call; distinct by source, mode, extension set",
		propAnalog)
}

func TestReplay(t *testing.T) {
	acting := func(b []byte, s *rt.Section) *rt.Failure {
		var c ACase
		if err := json.Unmarshal(b, &c); err != nil {
			return s.NewFailure("replay", "replay:bad-case", nil, err.Error(), "")
		}
		f, _ := checkActing(c, s)
		return f
	}
	lookahead := func(b []byte, s *rt.Section) *rt.Failure {
		var c LACase
		if err := json.Unmarshal(b, &c); err != nil {
			return s.NewFailure("replay", "replay:bad-case", nil, err.Error(), "")
		}
		return checkLookahead(c, s)
	}
	rt.Replay(t, "C17", map[string]rt.ReplayFunc{
		"lookahead": lookahead,
		"transparent": func(b []byte, s *rt.Section) *rt.Failure {
			var c TCase
			if err := json.Unmarshal(b, &c); err != nil {
				return s.NewFailure("replay", "replay:bad-case", nil, err.Error(), "")
			}
			f, _ := checkTransparent(c, s)
			return f
		},
		"acting": acting,
		"restored": func(b []byte, s *rt.Section) *rt.Failure {
			var c RCase
			if err := json.Unmarshal(b, &c); err != nil {
				return s.NewFailure("replay", "replay:bad-case", nil, err.Error(), "")
			}
			f, _ := checkRestored(c, s)
			return f
		},
		"contexts": acting,
		"analog": func(b []byte, s *rt.Section) *rt.Failure {
			var c XCase
			if err := json.Unmarshal(b, &c); err != nil {
				return s.NewFailure("replay", "replay:bad-case", nil, err.Error(), "")
			}
			f, _ := checkAnalog(c, s)
			return f
		},
	})
}
