package c17

import (
	"fmt"
	"strconv"

	ds "github.com/sealdice/dicescript"

	"verif/harness/rt"
	"verif/harness/vmx"
)

// Section lookahead: a stream parser whose decision depends on text it does not consume (it matches L<digits> only when the
// next character is one of two marks, which it reads and hands back): the match, the handler call and the value are the
// same whether or not the text goes on behind the operand.

type LACase struct {
	Src  string `json:"src"`
	Want int64  `json:"want"` // value of the whole consumed text
	Text string `json:"text"` // matched text the handler must be given
	Rest string `json:"rest"`
}

var lookaheadCases = []LACase{
	{"L5!", 10, "L5", "!"},
	{"L5! tail", 10, "L5", "! tail"},
	{"1 + L5!", 11, "L5", "!"},
	{"1 + L5! 攻击", 11, "L5", "! 攻击"},
	{"x = L7~ more", 14, "L7", "~ more"},
	{"[1, 2][0] + L3! x", 7, "L3", "! x"},
	{"2 * L12~", 48, "L12", "~"},
	{"L4!!", 8, "L4", "!!"},
	{"y = 3; y + L1~)", 5, "L1", "~)"},
}

func checkLookahead(c LACase, s *rt.Section) *rt.Failure {
	cfg := vmx.Cfg{OpLimit: 30000, SeedHex: "000102030405060708090a0b0c0d0e0f"}
	vm := cfg.NewVM()
	var calls []string
	err := vm.RegCustomDiceParser(func(ctx *ds.Context, st *ds.CustomDiceStream) (*ds.CustomDiceParseResult, error) {
		if r, ok := st.Read(); !ok || r != 'L' {
			return &ds.CustomDiceParseResult{Matched: false}, nil
		}
		if _, ok := st.ReadDigits(); !ok {
			return &ds.CustomDiceParseResult{Matched: false}, nil
		}
		r, ok := st.Read() // the mark decides, and is handed back
		if !ok || (r != '!' && r != '~') {
			return &ds.CustomDiceParseResult{Matched: false}, nil
		}
		st.Unread()
		return &ds.CustomDiceParseResult{Matched: true}, nil
	}, func(ctx *ds.Context, groups []string, payload any) (*ds.VMValue, string, error) {
		calls = append(calls, fmt.Sprint(groups))
		n, _ := strconv.ParseInt(groups[0][1:], 10, 64)
		return ds.NewIntVal(ds.IntType(2 * n)), "", nil
	})
	if err != nil {
		return s.NewFailure("harness", "harness:install", c, err.Error(), "the parser registers")
	}
	var runErr error
	if pi := rt.Guard(func() { runErr = vm.Run(c.Src) }); pi != nil {
		return s.NewFailure("no-panic", pi.Sig(), c, pi.Value+"\n"+pi.Stack, "a value")
	}
	got := fmt.Sprintf("err=%v calls=%v", runErr, calls)
	if runErr == nil {
		got += fmt.Sprintf(" value=%s rest=%q", vmx.Repr(vm.Ret), vm.RestInput)
	}
	want := fmt.Sprintf("err=<nil> calls=[[%s]] value=i%d rest=%q", c.Text, c.Want, c.Rest)
	if got != want {
		return s.NewFailure("lookahead-match", "lookahead:differs", c, got, want)
	}
	return nil
}
