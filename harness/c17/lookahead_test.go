package c17

import (
	"fmt"
	"strconv"

	ds "github.com/sealdice/dicescript"

	"verif/harness/rt"
	"verif/harness/vmx"
)

// Section lookahead: a stream parser whose decision depends on text it does not consume (it matches L<digits> only when the
// next character is one of two marks, which it reads and hands back): the match, the handler call and the value are the
// same whether or not the text goes on behind the operand.

type LACase struct {
	Src  string `json:"src"`
	Want int64  `json:"want"` // value of the whole consumed text
	Text string `json:"text"` // matched text (regex: all groups) the handler must be given
	Rest string `json:"rest"`
	// Re: instead of the stream parser, a regular expression whose zero-width end assertion (\B, $, \z) looks at the
	// text behind the match; NoCall: that text makes it not match, the name is an ordinary (undefined) variable
	Re     string `json:"re,omitempty"`
	NoCall bool   `json:"no_call,omitempty"`
}

var lookaheadCases = []LACase{
	{Src: "L5!", Want: 10, Text: "L5", Rest: "!"},
	{Src: "L5! tail", Want: 10, Text: "L5", Rest: "! tail"},
	{Src: "1 + L5!", Want: 11, Text: "L5", Rest: "!"},
	{Src: "1 + L5! 攻击", Want: 11, Text: "L5", Rest: "! 攻击"},
	{Src: "x = L7~ more", Want: 14, Text: "L7", Rest: "~ more"},
	{Src: "[1, 2][0] + L3! x", Want: 7, Text: "L3", Rest: "! x"},
	{Src: "2 * L12~", Want: 48, Text: "L12", Rest: "~"},
	{Src: "L4!!", Want: 8, Text: "L4", Rest: "!!"},
	{Src: "y = 3; y + L1~)", Want: 5, Text: "L1", Rest: "~)"},
	{Src: "P1x y", Want: 2, Text: "P1 1", Rest: "x y", Re: `P(\d)\B`},
	{Src: "1 + P1x y", Want: 3, Text: "P1 1", Rest: "x y", Re: `P(\d)\B`},
	{Src: "P4", Rest: "", Re: `P(\d)\B`, NoCall: true},
	{Src: "adv，力量检定", Rest: "，力量检定", Re: `adv$`, NoCall: true},
	{Src: "adv)", Rest: ")", Re: `adv$`, NoCall: true},
	{Src: "adv", Want: 0, Text: "adv", Rest: "", Re: `adv$`},
	{Src: "T5 x", Rest: " x", Re: `T(\d+)\z`, NoCall: true},
	{Src: "1 + T5", Want: 11, Text: "T5 5", Rest: "", Re: `T(\d+)\z`},
}

func checkLookahead(c LACase, s *rt.Section) *rt.Failure {
	cfg := vmx.Cfg{OpLimit: 30000, SeedHex: "000102030405060708090a0b0c0d0e0f"}
	vm := cfg.NewVM()
	var calls []string
	handler := func(ctx *ds.Context, groups []string, payload any) (*ds.VMValue, string, error) {
		calls = append(calls, fmt.Sprint(groups))
		n, _ := strconv.ParseInt(groups[len(groups)-1], 10, 64)
		return ds.NewIntVal(ds.IntType(2 * n)), "", nil
	}
	if c.Re != "" {
		return judgeLookahead(c, s, vm, vm.RegCustomDice(c.Re, func(ctx *ds.Context, groups []string, payload any) (*ds.VMValue, string, error) {
			return handler(ctx, groups, payload)
		}), &calls)
	}
	err := vm.RegCustomDiceParser(func(ctx *ds.Context, st *ds.CustomDiceStream) (*ds.CustomDiceParseResult, error) {
		if r, ok := st.Read(); !ok || r != 'L' {
			return &ds.CustomDiceParseResult{Matched: false}, nil
		}
		if _, ok := st.ReadDigits(); !ok {
			return &ds.CustomDiceParseResult{Matched: false}, nil
		}
		r, ok := st.Read() // the mark decides, and is handed back
		if !ok || (r != '!' && r != '~') {
			return &ds.CustomDiceParseResult{Matched: false}, nil
		}
		st.Unread()
		return &ds.CustomDiceParseResult{Matched: true}, nil
	}, func(ctx *ds.Context, groups []string, payload any) (*ds.VMValue, string, error) {
		calls = append(calls, fmt.Sprint(groups))
		n, _ := strconv.ParseInt(groups[0][1:], 10, 64)
		return ds.NewIntVal(ds.IntType(2 * n)), "", nil
	})
	return judgeLookahead(c, s, vm, err, &calls)
}

func judgeLookahead(c LACase, s *rt.Section, vm *ds.Context, err error, callsp *[]string) *rt.Failure {
	if err != nil {
		return s.NewFailure("harness", "harness:install", c, err.Error(), "the parser registers")
	}
	var runErr error
	if pi := rt.Guard(func() { runErr = vm.Run(c.Src) }); pi != nil {
		return s.NewFailure("no-panic", pi.Sig(), c, pi.Value+"\n"+pi.Stack, "a value")
	}
	calls := *callsp
	got := fmt.Sprintf("err=%v calls=%v", runErr, calls)
	if runErr == nil {
		got += fmt.Sprintf(" value=%s rest=%q", vmx.Repr(vm.Ret), vm.RestInput)
	}
	want := fmt.Sprintf("err=<nil> calls=[[%s]] value=i%d rest=%q", c.Text, c.Want, c.Rest)
	if c.NoCall {
		want = ""
		if runErr == nil && len(calls) == 0 && vm.RestInput == c.Rest {
			want = got // the plain language decides the value; what matters is that nothing of the syntax took part
		} else {
			want = fmt.Sprintf("no handler call, rest=%q", c.Rest)
		}
	}
	if got != want {
		return s.NewFailure("lookahead-match", "lookahead:differs", c, got, want)
	}
	return nil
}
