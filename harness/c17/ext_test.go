package c17

import (
	"fmt"
	"regexp"
	"sort"
	"strconv"
	"strings"

	ds "github.com/sealdice/dicescript"

	"verif/harness/vmx"
)

// ---------------------------------------------------------------------------
// serialisable description of a set of extensions

// StreamOp is one step of a read-ahead program run by a declining stream parser.
type StreamOp struct {
	Op string `json:"op"` // read | peek | unread | digits | reset | expr | obs | commit
	N  int    `json:"n,omitempty"`
}

// Ext is one registered custom dice syntax.
//
//	log   stream parser that records the text it is offered and declines (always first when present)
//	re    RegCustomDice(Pat)
//	decl  stream parser that runs Ops (reads ahead) and then declines in the way End says
//	syn   one of the named matching syntaxes of synTable (regex or stream), Variant selects how a
//	      stream parser declines / fills its result
type Ext struct {
	Kind    string     `json:"kind"`
	Pat     string     `json:"pat,omitempty"`
	Ops     []StreamOp `json:"ops,omitempty"`
	End     string     `json:"end,omitempty"` // nil | nomatch | nomatch+data | match0 | unread0
	Syn     string     `json:"syn,omitempty"`
	Variant int        `json:"variant,omitempty"`
}

const (
	vNoReset     = 1  // decline without calling ResetAttempt (the framework resets by itself)
	vGroupsNil   = 2  // Matched with Groups == nil: the framework supplies [matched text]
	vGroups0Void = 4  // Matched with Groups[0] == "": the framework fills in the matched text
	vDisplay     = 8  // Display set: it is the fallback process text instead of the matched text
	vDeclineNil  = 16 // decline by returning (nil, nil) instead of Matched=false
)

// Hooks selects the pass-through hooks and rewriters to install.
type Hooks struct {
	LoadPre  bool `json:"loadPre,omitempty"`
	LoadPost bool `json:"loadPost,omitempty"`
	// LoadPostLean: the load hook hands plain values straight back and calls doCompute only for computed values (both
	// spellings pass every value through unchanged)
	LoadPostLean  bool `json:"loadPostLean,omitempty"`
	Store         bool `json:"store,omitempty"`
	SpanRewrite   bool `json:"spanRewrite,omitempty"`
	DetailRewrite bool `json:"detailRewrite,omitempty"`
}

func (h Hooks) any() bool {
	return h.LoadPre || h.LoadPost || h.Store || h.SpanRewrite || h.DetailRewrite
}

func installHooks(vm *ds.Context, h Hooks) {
	if h.LoadPre {
		vm.Config.HookValueLoadPre = func(ctx *ds.Context, name string) (string, *ds.VMValue) { return name, nil }
	}
	if h.LoadPost {
		vm.Config.HookValueLoadPost = func(ctx *ds.Context, name string, cur *ds.VMValue, doCompute func(*ds.VMValue) *ds.VMValue, detail *ds.BufferSpan) *ds.VMValue {
			if h.LoadPostLean && cur != nil && cur.TypeId != ds.VMTypeComputedValue {
				return cur
			}
			return doCompute(cur)
		}
	}
	if h.Store {
		vm.Config.HookValueStore = func(ctx *ds.Context, name string, v *ds.VMValue) (*ds.VMValue, bool) { return nil, false }
	}
	if h.SpanRewrite {
		vm.Config.CustomDetailSpanRewriteFunc = func(ctx *ds.Context, def string, span ds.BufferSpan, isRoot bool, data []byte, off int) string {
			return def
		}
	}
	if h.DetailRewrite {
		vm.Config.CustomDetailRewriteFunc = func(ctx *ds.Context, cur string, span ds.BufferSpan, data []byte, off int) string {
			return cur
		}
	}
}

// ---------------------------------------------------------------------------
// the named matching syntaxes

type payload struct {
	K, J int64
}

type synDef struct {
	name   string
	stream bool
	pat    string         // regex syntaxes: the registered pattern
	find   *regexp.Regexp // occurrences of the syntax anywhere in a source text (ambiguity screening only)
	text   func(k, j int64) string
	// groups the handler must receive for an operand (k, j) written as text
	groups func(text string, k, j int64, variant int) []string
	parse  func(st *ds.CustomDiceStream, variant int) (*ds.CustomDiceParseResult, error)
	hasJ   bool // the syntax carries a second number
	optJ   bool // ... which may be absent (j < 0)
}

func itoa(i int64) string { return strconv.FormatInt(i, 10) }

func decline(st *ds.CustomDiceStream, variant int) (*ds.CustomDiceParseResult, error) {
	if variant&vNoReset == 0 {
		st.ResetAttempt()
	}
	if variant&vDeclineNil != 0 {
		return nil, nil
	}
	return &ds.CustomDiceParseResult{Matched: false}, nil
}

func accept(st *ds.CustomDiceStream, variant int, k, j string, hasJ bool) (*ds.CustomDiceParseResult, error) {
	st.Commit()
	kv, err := strconv.ParseInt(k, 10, 64)
	if err != nil {
		return decline(st, variant)
	}
	var jv int64 = -1
	if hasJ {
		jv, err = strconv.ParseInt(j, 10, 64)
		if err != nil {
			return decline(st, variant)
		}
	}
	res := &ds.CustomDiceParseResult{Matched: true, Payload: &payload{K: kv, J: jv}}
	switch {
	case variant&vGroupsNil != 0:
	case variant&vGroups0Void != 0:
		res.Groups = []string{"", k}
	default:
		res.Groups = []string{st.Current(), k}
	}
	if hasJ && res.Groups != nil {
		res.Groups = append(res.Groups, j)
	}
	if variant&vDisplay != 0 {
		res.Display = "disp:" + st.Current()
	}
	return res, nil
}

func streamGroups(text string, k, j int64, variant int, hasJ bool) []string {
	if variant&vGroupsNil != 0 {
		return []string{text}
	}
	g := []string{text, itoa(k)}
	if hasJ {
		g = append(g, itoa(j))
	}
	return g
}

var synTable = map[string]*synDef{}
var synNames []string        // every value-carrying syntax (sections contexts/acting)
var analogNames = []string{} // the dice analogues (section analog)

func addSyn(d *synDef) {
	synTable[d.name] = d
}

func init() {
	reGroups := func(text string, k, j int64, variant int) []string { return []string{text, itoa(k)} }
	addSyn(&synDef{name: "E", pat: `E(\d+)`, find: regexp.MustCompile(`E\d+`),
		text: func(k, j int64) string { return "E" + itoa(k) }, groups: reGroups})
	addSyn(&synDef{name: "bang", pat: `(\d+)!`, find: regexp.MustCompile(`\d+!`),
		text: func(k, j int64) string { return itoa(k) + "!" }, groups: reGroups})
	addSyn(&synDef{name: "cjk", pat: `骰(\d+)点`, find: regexp.MustCompile(`骰\d+点`),
		text: func(k, j int64) string { return "骰" + itoa(k) + "点" }, groups: reGroups})
	addSyn(&synDef{name: "Q", pat: `Q(\d+)(?:_(\d+))?`, find: regexp.MustCompile(`Q\d+`), hasJ: true, optJ: true,
		text: func(k, j int64) string {
			if j < 0 {
				return "Q" + itoa(k)
			}
			return "Q" + itoa(k) + "_" + itoa(j)
		},
		groups: func(text string, k, j int64, variant int) []string {
			if j < 0 {
				return []string{text, itoa(k), ""} // a group that took no part in the match is ""
			}
			return []string{text, itoa(k), itoa(j)}
		}})

	// C<k>T<j>: the example of docs/CustomDiceParser.md
	addSyn(&synDef{name: "CT", stream: true, find: regexp.MustCompile(`C\d+T\d+`), hasJ: true,
		text:   func(k, j int64) string { return "C" + itoa(k) + "T" + itoa(j) },
		groups: func(text string, k, j int64, v int) []string { return streamGroups(text, k, j, v, true) },
		parse: func(st *ds.CustomDiceStream, v int) (*ds.CustomDiceParseResult, error) {
			r, ok := st.Read()
			if !ok || r != 'C' {
				return decline(st, v)
			}
			a, ok := st.ReadDigits()
			if !ok {
				return decline(st, v)
			}
			r, ok = st.Read()
			if !ok || r != 'T' {
				return decline(st, v)
			}
			b, ok := st.ReadDigits()
			if !ok {
				return decline(st, v)
			}
			return accept(st, v, a, b, true)
		}})
	// @<k>: decides by Peek before reading anything
	addSyn(&synDef{name: "at", stream: true, find: regexp.MustCompile(`@\d+`),
		text:   func(k, j int64) string { return "@" + itoa(k) },
		groups: func(text string, k, j int64, v int) []string { return streamGroups(text, k, j, v, false) },
		parse: func(st *ds.CustomDiceStream, v int) (*ds.CustomDiceParseResult, error) {
			r, ok := st.Peek()
			if !ok || r != '@' {
				return decline(st, v)
			}
			st.Read()
			a, ok := st.ReadDigits()
			if !ok {
				return decline(st, v)
			}
			return accept(st, v, a, "", false)
		}})
	// 掷<k>: a multi-byte lead rune
	addSyn(&synDef{name: "zh", stream: true, find: regexp.MustCompile(`掷\d+`),
		text:   func(k, j int64) string { return "掷" + itoa(k) },
		groups: func(text string, k, j int64, v int) []string { return streamGroups(text, k, j, v, false) },
		parse: func(st *ds.CustomDiceStream, v int) (*ds.CustomDiceParseResult, error) {
			r, ok := st.Read()
			if !ok || r != '掷' {
				return decline(st, v)
			}
			a, ok := st.ReadDigits()
			if !ok {
				return decline(st, v)
			}
			return accept(st, v, a, "", false)
		}})
	// Z<k>: reads up to two runes past its own end and puts them back
	addSyn(&synDef{name: "Z", stream: true, find: regexp.MustCompile(`Z\d+`),
		text:   func(k, j int64) string { return "Z" + itoa(k) },
		groups: func(text string, k, j int64, v int) []string { return streamGroups(text, k, j, v, false) },
		parse: func(st *ds.CustomDiceStream, v int) (*ds.CustomDiceParseResult, error) {
			r, ok := st.Read()
			if !ok || r != 'Z' {
				return decline(st, v)
			}
			var digits []rune
			for {
				r, ok := st.Read()
				if !ok {
					break
				}
				if r < '0' || r > '9' {
					st.Unread()
					break
				}
				digits = append(digits, r)
			}
			if len(digits) == 0 {
				return decline(st, v)
			}
			ahead := 0
			for i := 0; i < 2; i++ {
				if _, ok := st.Read(); ok {
					ahead++
				}
			}
			for i := 0; i < ahead; i++ {
				st.Unread()
			}
			return accept(st, v, string(digits), "", false)
		}})
	// (<k>)#: a syntax that opens like a parenthesised operand of the language itself
	addSyn(&synDef{name: "paren", pat: `\((\d+)\)#`, find: regexp.MustCompile(`\(\d+\)#`),
		text: func(k, j int64) string { return "(" + itoa(k) + ")#" }, groups: reGroups})
	synNames = []string{"E", "bang", "cjk", "Q", "CT", "at", "zh", "Z", "paren"}

	// dice analogues: <n>X<m> behaves like the built-in <n>d<m> (value and text supplied by the handler)
	addSyn(&synDef{name: "X", pat: `(\d+)X(\d+)`, find: regexp.MustCompile(`\d+X\d+`), hasJ: true,
		text:   func(k, j int64) string { return itoa(k) + "X" + itoa(j) },
		groups: func(text string, k, j int64, v int) []string { return []string{text, itoa(k), itoa(j)} }})
	addSyn(&synDef{name: "Xs", stream: true, find: regexp.MustCompile(`\d+X\d+`), hasJ: true,
		text:   func(k, j int64) string { return itoa(k) + "X" + itoa(j) },
		groups: func(text string, k, j int64, v int) []string { return streamGroups(text, k, j, v, true) },
		parse: func(st *ds.CustomDiceStream, v int) (*ds.CustomDiceParseResult, error) {
			a, ok := st.ReadDigits()
			if !ok {
				return decline(st, v)
			}
			r, ok := st.Read()
			if !ok || r != 'X' {
				return decline(st, v)
			}
			b, ok := st.ReadDigits()
			if !ok {
				return decline(st, v)
			}
			return accept(st, v, a, b, true)
		}})
	analogNames = []string{"X", "Xs"}
}

// ---------------------------------------------------------------------------
// recorder: what the extensions saw

type callRec struct {
	Syn     string   `json:"syn"`
	Groups  []string `json:"groups"`
	Payload string   `json:"payload,omitempty"`
}

func (c callRec) String() string {
	return fmt.Sprintf("%s%q%s", c.Syn, c.Groups, c.Payload)
}

type handlerMode struct {
	Reuse     bool   // every handler returns one shared *VMValue that it overwrites on each call
	MutGroups bool   // the handler scribbles over the groups slice it was given, after reading it
	Text      string // "" → return "" (fallback text) | "explicit" → return the documented fallback itself | "tag" → "t:"+groups[0]
	FailAt    int    // >0: the FailAt-th handler call returns an error
	Analog    string // "" | "min" | "max": value and text of <n>d<m> under that mode
}

type recorder struct {
	consults   []string // text offered to the logging parser at each consultation
	streamActs int      // stream parsers that reported a match with Consumed() > 0
	calls      []callRec
	shared     *ds.VMValue
	lastSet    ds.VMValue
	sharedUsed bool
}

func newRecorder() *recorder {
	return &recorder{shared: ds.NewIntVal(0)}
}

func (r *recorder) reset() {
	r.consults = nil
	r.streamActs = 0
	r.calls = nil
}

func (r *recorder) distinctConsults() int {
	seen := map[int]bool{}
	for _, c := range r.consults {
		seen[len(c)] = true
	}
	return len(seen)
}

var errBoom = fmt.Errorf("boom: handler refused")

func analogValue(n, m int64, mode string) (int64, string) {
	face := int64(1)
	if mode == "max" {
		face = m
	}
	if m == 0 {
		face = 0
	}
	parts := make([]string, 0, n)
	for i := int64(0); i < n; i++ {
		parts = append(parts, itoa(face))
	}
	return n * face, strings.Join(parts, "+")
}

func (r *recorder) handler(syn string, hm handlerMode, variant int) ds.CustomDiceHandler {
	return func(ctx *ds.Context, groups []string, pl any) (*ds.VMValue, string, error) {
		rec := callRec{Syn: syn, Groups: append([]string(nil), groups...)}
		if p, ok := pl.(*payload); ok && p != nil {
			rec.Payload = fmt.Sprintf("{%d,%d}", p.K, p.J)
		} else if pl != nil {
			rec.Payload = fmt.Sprintf("%v", pl)
		}
		r.calls = append(r.calls, rec)
		if hm.FailAt > 0 && len(r.calls) == hm.FailAt {
			return nil, "", errBoom
		}
		// the value: from the payload when there is one, else from the first capture
		var k, j int64 = 7, -1
		if p, ok := pl.(*payload); ok && p != nil {
			k, j = p.K, p.J
		} else if len(groups) > 1 {
			if v, err := strconv.ParseInt(groups[1], 10, 64); err == nil {
				k = v
			}
			if len(groups) > 2 {
				if v, err := strconv.ParseInt(groups[2], 10, 64); err == nil {
					j = v
				}
			}
		}
		text := ""
		whole := ""
		if len(groups) > 0 {
			whole = groups[0]
		}
		switch hm.Text {
		case "explicit":
			text = whole
			if variant&vDisplay != 0 {
				text = "disp:" + whole
			}
		case "tag":
			text = "t:" + whole
		}
		val := k
		if hm.Analog != "" {
			val, text = analogValue(k, j, hm.Analog)
		}
		if hm.MutGroups {
			for i := range groups {
				groups[i] = "scribbled"
			}
		}
		if hm.Reuse {
			r.shared.TypeId = ds.VMTypeInt
			r.shared.Value = ds.IntType(val)
			r.lastSet = *r.shared
			r.sharedUsed = true
			return r.shared, text, nil
		}
		return ds.NewIntVal(ds.IntType(val)), text, nil
	}
}

func runDecl(e Ext, st *ds.CustomDiceStream) (*ds.CustomDiceParseResult, error) {
	for _, op := range e.Ops {
		n := op.N
		if n <= 0 {
			n = 1
		}
		switch op.Op {
		case "read":
			for i := 0; i < n; i++ {
				st.Read()
			}
		case "peek":
			st.Peek()
		case "unread":
			for i := 0; i < n; i++ {
				st.Unread()
			}
		case "digits":
			st.ReadDigits()
		case "reset":
			st.ResetAttempt()
		case "expr":
			_, _, _ = st.ReadExpr("")
		case "obs":
			_ = st.Current()
			_ = st.Consumed()
			_ = st.Remaining()
		case "commit":
			st.Commit()
		}
	}
	switch e.End {
	case "nil":
		return nil, nil
	case "nomatch+data":
		return &ds.CustomDiceParseResult{Matched: false, Groups: []string{"x", "y"}, Display: "shown", Payload: 1}, nil
	case "match0":
		// "解析成功后务必使 Consumed() 返回正数，否则框架会忽略本次匹配"
		st.ResetAttempt()
		return &ds.CustomDiceParseResult{Matched: true, Groups: []string{"z"}, Display: "zero"}, nil
	case "unread0":
		for st.Unread() {
		}
		if st.Consumed() != 0 {
			st.ResetAttempt()
		}
		return &ds.CustomDiceParseResult{Matched: true}, nil
	}
	return &ds.CustomDiceParseResult{Matched: false}, nil
}

// install registers the extensions on vm.  It returns the compiled patterns of
// the regex items (for the "did anything match" classification).
func install(vm *ds.Context, exts []Ext, hk Hooks, r *recorder, hm handlerMode) ([]*regexp.Regexp, error) {
	var res []*regexp.Regexp
	for _, e := range exts {
		e := e
		switch e.Kind {
		case "log":
			err := vm.RegCustomDiceParser(func(ctx *ds.Context, st *ds.CustomDiceStream) (*ds.CustomDiceParseResult, error) {
				r.consults = append(r.consults, st.Remaining())
				return &ds.CustomDiceParseResult{Matched: false}, nil
			}, r.handler("log", hm, 0))
			if err != nil {
				return nil, err
			}
		case "re":
			re, err := regexp.Compile(e.Pat)
			if err != nil {
				return nil, err
			}
			res = append(res, re)
			if err := vm.RegCustomDice(e.Pat, r.handler("re:"+e.Pat, hm, 0)); err != nil {
				return nil, err
			}
		case "decl":
			err := vm.RegCustomDiceParser(func(ctx *ds.Context, st *ds.CustomDiceStream) (*ds.CustomDiceParseResult, error) {
				return runDecl(e, st)
			}, r.handler("decl", hm, 0))
			if err != nil {
				return nil, err
			}
		case "syn":
			d := synTable[e.Syn]
			if d == nil {
				return nil, fmt.Errorf("unknown syntax %q", e.Syn)
			}
			if d.stream {
				err := vm.RegCustomDiceParser(func(ctx *ds.Context, st *ds.CustomDiceStream) (*ds.CustomDiceParseResult, error) {
					res, err := d.parse(st, e.Variant)
					if res != nil && res.Matched && st.Consumed() > 0 {
						r.streamActs++
					}
					return res, err
				}, r.handler(d.name, hm, e.Variant))
				if err != nil {
					return nil, err
				}
			} else {
				res = append(res, regexp.MustCompile(d.pat))
				if err := vm.RegCustomDice(d.pat, r.handler(d.name, hm, 0)); err != nil {
					return nil, err
				}
			}
		default:
			return nil, fmt.Errorf("unknown extension kind %q", e.Kind)
		}
	}
	installHooks(vm, hk)
	return res, nil
}

// acted reports whether any registered syntax matched at a position where the
// framework consulted the custom syntaxes (as seen by the logging parser, which
// is registered first and therefore sees every consultation).
func (r *recorder) acted(res []*regexp.Regexp) bool {
	if r.streamActs > 0 {
		return true
	}
	seen := map[string]bool{}
	for _, text := range r.consults {
		if seen[text] {
			continue
		}
		seen[text] = true
		for _, re := range res {
			if loc := re.FindStringIndex(text); loc != nil && loc[0] == 0 && loc[1] > 0 {
				return true
			}
		}
	}
	return false
}

// ---------------------------------------------------------------------------
// variables rendered without the source text of function and computed bodies
// (the text differs between two spellings of one program; the values must not)

func attrsNoText(vm *ds.Context) string {
	if vm.Attrs == nil {
		return "{}"
	}
	return mapNoText(vm.Attrs, 0)
}

func mapNoText(m *ds.ValueMap, depth int) string {
	type kv struct {
		k string
		v *ds.VMValue
	}
	var items []kv
	m.Range(func(k string, v *ds.VMValue) bool {
		items = append(items, kv{k, v})
		return true
	})
	sort.Slice(items, func(i, j int) bool { return items[i].k < items[j].k })
	var sb strings.Builder
	sb.WriteString("{")
	for i, it := range items {
		if i > 0 {
			sb.WriteString(",")
		}
		sb.WriteString(strconv.Quote(it.k) + ":" + valNoText(it.v, depth+1))
	}
	sb.WriteString("}")
	return sb.String()
}

func valNoText(v *ds.VMValue, depth int) string {
	if v == nil {
		return "<nil>"
	}
	if depth > 30 {
		return "<deep>"
	}
	switch v.TypeId {
	case ds.VMTypeArray:
		ad, ok := v.ReadArray()
		if !ok || ad == nil {
			return "arr<bad>"
		}
		parts := make([]string, 0, len(ad.List))
		for _, e := range ad.List {
			parts = append(parts, valNoText(e, depth+1))
		}
		return "[" + strings.Join(parts, ",") + "]"
	case ds.VMTypeDict:
		dd, ok := v.ReadDictData()
		if !ok || dd == nil || dd.Dict == nil {
			return "dict<bad>"
		}
		return mapNoText(dd.Dict, depth+1)
	case ds.VMTypeComputedValue:
		cd, ok := v.ReadComputed()
		if !ok || cd == nil {
			return "computed<bad>"
		}
		out := "&(…)"
		if cd.Attrs != nil && cd.Attrs.Length() > 0 {
			out += mapNoText(cd.Attrs, depth+1)
		}
		return out
	case ds.VMTypeFunction:
		fd, ok := v.ReadFunctionData()
		if !ok || fd == nil {
			return "func<bad>"
		}
		return fmt.Sprintf("func %s(%s){…}", fd.Name, strings.Join(fd.Params, ","))
	}
	return vmx.Repr(v)
}
