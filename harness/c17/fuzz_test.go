package c17

import (
	"strings"
	"testing"

	"verif/harness/rt"
	"verif/harness/vmx"
)

// fuzzExtMenu: passive extensions a fuzz input picks from (regexes that are never / sometimes / emptily matched,
// stream parsers that read ahead and decline in every way).
func fuzzExtMenu() []Ext {
	var m []Ext
	for _, list := range [][]string{neverPatterns, emptyPatterns, midPatterns} {
		for _, p := range list {
			m = append(m, Ext{Kind: "re", Pat: p})
		}
	}
	ends := []string{"nomatch", "nil", "nomatch+data", "match0", "unread0"}
	for i, e := range ends {
		m = append(m, Ext{Kind: "decl", End: e, Ops: []StreamOp{{Op: "read", N: 1 + i}, {Op: "peek"}, {Op: "digits"}}})
		m = append(m, Ext{Kind: "decl", End: e, Ops: []StreamOp{{Op: "read", N: 3}, {Op: "unread", N: 1}, {Op: "expr"}, {Op: "reset"}}})
		m = append(m, Ext{Kind: "decl", End: e, Ops: []StreamOp{{Op: "obs"}, {Op: "read", N: 6}, {Op: "commit"}}})
	}
	return m
}

// FuzzC17 (thorough tier): coverage-guided search over raw source bytes with the differential oracle of the
// transparent section: plain VM versus the same VM with passive extensions and pass-through hooks.
// Bytes 0..1 select the configuration, byte 2 the hooks, bytes 3..5 up to three extensions; the rest is the source.
func FuzzC17(f *testing.F) {
	seeds := []string{"a = 2; b = a * 3; a + b", "x = 3; func f(x) { x }; f(null)", "&c = 1 + 2; c * 2", "ceil = null; ceil(1.2)",
		"[1,2,(3)]kh + `a{2d6}b` + (1+2)d1", "func g(n) { return n ? 1, 2 }; g(0) 断头", "^st力量50 敏捷+=1d1", "{'a': [1, 2d1]}.a[1] + 4d1k2"}
	for i, p := range seeds {
		f.Add(append([]byte{0x0f, byte(i), 0x1f, byte(i * 5), byte(i*7 + 3), byte(i*11 + 9)}, p...))
	}
	menu := fuzzExtMenu()
	_, s := rt.FuzzRun("C17", "transparent")
	f.Fuzz(func(t *testing.T, data []byte) {
		if len(data) < 7 || len(data) > 306 {
			return
		}
		b := data[0]
		c := TCase{Src: string(data[6:]), Cfg: vmx.Cfg{CoC: b&1 != 0, WoD: b&2 != 0, Fate: b&4 != 0, DC: b&8 != 0, IgnoreDiv0: b&16 != 0,
			OpLimit: opLimit, SeedHex: "000102030405060708090a0b0c0d0e0f"}}
		switch data[1] % 3 {
		case 1:
			c.Cfg.Mode = "min"
		case 2:
			c.Cfg.Mode = "max"
		}
		h := data[2]
		c.Hooks = Hooks{LoadPre: h&1 != 0, LoadPost: h&2 != 0, Store: h&4 != 0, SpanRewrite: h&8 != 0, DetailRewrite: h&16 != 0}
		c.Exts = []Ext{{Kind: "log"}}
		for _, x := range data[3:6] {
			if int(x) < 2*len(menu) { // above: no extension in this slot
				c.Exts = append(c.Exts, menu[int(x)%len(menu)])
			}
		}
		// dicts print in Go map order: inputs that can print a multi-key dict are outside the deterministic domain
		if strings.Count(c.Src, ":") > 1 && strings.Contains(c.Src, "{") {
			return
		}
		if strings.Contains(c.Src, "dir(") || strings.Contains(c.Src, "keys") || strings.Contains(c.Src, "values") || strings.Contains(c.Src, "items") {
			return
		}
		fl, _ := checkTransparent(c, s)
		if fl == nil {
			return
		}
		// a dict that gained keys by assignment prints in Go map order, which differs from run to run: only a
		// difference that repeats identically twelve times is a function of the input
		for i := 0; i < 12; i++ {
			if f2, _ := checkTransparent(c, s); f2 == nil || f2.Signature != fl.Signature || f2.Observed != fl.Observed {
				return
			}
		}
		if s.FuzzReport(fl) {
			t.Fatalf("C17 %s\nobserved: %s\nexpected: %s\ncase: %s", fl.Signature, fl.Observed, fl.Expected, fl.Case)
		}
	})
}
