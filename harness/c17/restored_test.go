package c17

import (
	"fmt"
	"strings"

	ds "github.com/sealdice/dicescript"
	"pgregory.net/rapid"

	"verif/harness/gen"
	"verif/harness/rt"
	"verif/harness/vmx"
)

// section restored: function and computed bodies that contain custom operands, evaluated by
// the VM that compiled them and by a VM (same syntaxes registered) that received them
// through Attrs.ToJSON / UnmarshalJSON and therefore compiles the body text lazily.

const avoidRestored = "custom_in_lazy_body"

type RCase struct {
	Cfg   vmx.Cfg `json:"cfg"`
	Exts  []Ext   `json:"exts"`
	Hooks Hooks   `json:"hooks"`
	Def   string  `json:"def"` // defines functions / computed values / variables
	Use   string  `json:"use"` // evaluated after Def, by the defining VM and by the restored VM
	Reuse bool    `json:"reuse,omitempty"`
	// InBody: a custom operand occurs inside a function or computed body of Def
	InBody bool `json:"inBody,omitempty"`
}

func checkRestored(c RCase, s *rt.Section) (f *rt.Failure, calls int) {
	hm := handlerMode{Reuse: c.Reuse}
	a := c.Cfg.NewVM()
	recA := newRecorder()
	if _, err := install(a, c.Exts, c.Hooks, recA, hm); err != nil {
		return s.NewFailure("harness", "harness:install", c, err.Error(), "extensions register"), 0
	}
	oDef := runOne(a, c.Def)
	if oDef.ceiling || oDef.pi != nil || oDef.isErr || strings.TrimSpace(oDef.rest) != "" {
		s.Discard("definitions-do-not-run")
		return nil, 0
	}
	var js []byte
	var err error
	if pi := rt.Guard(func() { js, err = a.Attrs.ToJSON() }); pi != nil || err != nil {
		s.Discard("snapshot-refused")
		return nil, 0
	}
	b := c.Cfg.NewVM()
	recB := newRecorder()
	if _, err := install(b, c.Exts, c.Hooks, recB, hm); err != nil {
		return s.NewFailure("harness", "harness:install", c, err.Error(), "extensions register"), 0
	}
	if pi := rt.Guard(func() { err = b.Attrs.UnmarshalJSON(js) }); pi != nil || err != nil {
		s.Discard("restore-refused")
		return nil, 0
	}
	recA.reset()
	oA := runOne(a, c.Use)
	oB := runOne(b, c.Use)
	calls = len(recA.calls)
	if oA.ceiling || oB.ceiling {
		s.Discard("work-ceiling")
		return nil, calls
	}
	if oA.opLimited() || oB.opLimited() {
		s.Discard("operation-budget")
		return nil, calls
	}
	if oA.pi != nil {
		s.Discard("defining-vm-panics")
		return nil, calls
	}
	if oB.pi != nil {
		return s.NewFailure("no-panic", oB.pi.Sig(), c, oB.pi.Value+"\n"+oB.pi.Stack, "no panic"), calls
	}
	describe := func(o outcome, n int) string {
		return fmt.Sprintf("err=%q ret=%s rest=%q handler calls=%d", firstLine(o.err), clip(o.ret), o.rest, n)
	}
	if len(recB.calls) < len(recA.calls) {
		return s.NewFailure("same-after-restore", "restored:not-recognised", c, "restored VM: "+describe(oB, len(recB.calls)),
			"defining VM: "+describe(oA, len(recA.calls))), calls
	}
	if oA.isErr != oB.isErr {
		return s.NewFailure("same-after-restore", "restored:error-ness", c, "restored VM: "+describe(oB, len(recB.calls)),
			"defining VM: "+describe(oA, len(recA.calls))), calls
	}
	if fmt.Sprint(recA.calls) != fmt.Sprint(recB.calls) {
		return s.NewFailure("once-per-evaluation", "restored:calls", c, fmt.Sprintf("restored VM: %v", recB.calls), fmt.Sprintf("defining VM: %v", recA.calls)), calls
	}
	type cmp struct{ what, a, b string }
	list := []cmp{{"attrs", oA.attrsNT, oB.attrsNT}}
	if !oA.isErr {
		list = append([]cmp{{"ret", oA.ret, oB.ret}, {"rest", oA.rest, oB.rest}, {"detail", oA.detail, oB.detail}}, list...)
	}
	for _, x := range list {
		if x.a != x.b {
			if x.what == "detail" && sameModuloDictOrder(x.a, x.b) {
				continue
			}
			return s.NewFailure("same-after-restore", "restored:"+x.what, c, fmt.Sprintf("restored VM: %s = %s", x.what, clip(x.b)),
				fmt.Sprintf("defining VM: %s = %s", x.what, clip(x.a))), calls
		}
	}
	return nil, calls
}

func propRestored(t *rapid.T, s *rt.Section) {
	c := RCase{Cfg: vmx.DrawCfg(t, true)}
	c.Cfg.OpLimit = opLimit
	noise := rapid.SliceOfN(rapid.IntRange(0, 1000), 0, 12).Draw(t, "noise")
	sg := &safeGen{t: t, body: map[*gen.Node]bool{}}
	// definitions: at least one function and one computed value, plus whatever else is drawn
	var def []*gen.Node
	sg.force = 7 + 1
	def = append(def, sg.stmts(1, 1)...)
	sg.force = 4 + 1
	def = append(def, sg.stmts(1, 1)...)
	sg.force = 0
	if rapid.Bool().Draw(t, "moreDefs") {
		def = append(def, sg.stmts(1, 2)...)
	}
	var use []*gen.Node
	for i := rapid.IntRange(1, 3).Draw(t, "useStmts"); i > 0; i-- {
		e := sg.flat()
		switch rapid.IntRange(0, 5).Draw(t, "useWrap") {
		case 0:
			// the restored definitions are first used from inside a function the use program defines itself
			name := fmt.Sprintf("wr%d", i)
			use = append(use, &gen.Node{K: "func", S: name, Kids: []*gen.Node{gen.Block(gen.N("ret", e))}}, gen.Call(gen.Var(name)))
		case 1:
			// … or from inside a computed value of the use program
			name := fmt.Sprintf("wc%d", i)
			use = append(use, &gen.Node{K: "setc", S: name, Kids: []*gen.Node{e}}, gen.Var(name))
		default:
			use = append(use, e)
		}
	}
	defProg, useProg := gen.Prog(def...), gen.Prog(use...)
	avoid := s.Avoid(avoidRestored)
	syns := []string{rapid.SampledFrom(synNames).Draw(t, "synName")}
	if rapid.Bool().Draw(t, "twoSyn") {
		syns = append(syns, rapid.SampledFrom(synNames).Draw(t, "synName2"))
	}
	var chosen []*gen.Node
	var used []string
	for _, l := range sg.leaves {
		if avoid && sg.body[l] {
			continue
		}
		if rapid.IntRange(0, 2).Draw(t, "designate") != 0 && len(chosen) < 12 {
			chosen = append(chosen, l)
		}
	}
	for _, l := range chosen {
		d := synTable[rapid.SampledFrom(syns).Draw(t, "opSyn")]
		j := int64(-1)
		if d.hasJ && (!d.optJ || rapid.Bool().Draw(t, "withJ")) {
			j = int64(rapid.IntRange(0, 30).Draw(t, "opJ"))
		}
		if sg.body[l] {
			c.InBody = true
		}
		used = append(used, d.name)
		l.K, l.S = "xdice", d.text(l.I, j)
	}
	print := func(n *gen.Node) string {
		p := &gen.Printer{Z: &gen.Noise{Vals: noise}, BareNewline: true, NoParenNoise: true}
		p.Node(n)
		return p.String()
	}
	c.Def, c.Use = print(defProg), print(useProg)
	for _, l := range chosen {
		l.K, l.S = "int", ""
	}
	c.Exts = synExts(t, used)
	c.Hooks = drawHooks(t)
	c.Reuse = rapid.Bool().Draw(t, "reuse")
	s.Eval()
	s.Crumb(c)
	f, calls := checkRestored(c, s)
	if c.InBody {
		s.Class("custom-operand-in-restored-body")
	} else {
		s.Class("custom-operands-only-outside-bodies")
	}
	if calls > 0 {
		h := rt.Hash(c.Def, c.Use, fmt.Sprint(c.Exts))
		s.NonTrivial(h)
		if len(c.Def)+len(c.Use) < 120 {
			s.Sample(h, map[string]any{"def": c.Def, "use": c.Use, "handler_calls": calls})
		}
	}
	s.Report(t, f)
}

var _ = ds.NewVM
