#!/usr/bin/env python3
"""Confirm a seeded change and store it under seeded/<name>/.
  tools/ingest_seed.py <dir with patch.diff, demo_test.go|demo/, README.md> <PROPERTY> <name> [--checks C03,C01] [--scale 0.3] [--demo-runs 3]
Steps (all in a scratch worktree of /repo, removed afterwards): patch applies; builds (plain and -tags verif); repository tests pass;
demo fails with the patch and passes without; then the listed checks run against the patched copy (VERIF_REPO)."""
import json, os, shutil, subprocess, sys, tempfile, glob, time
ROOT = os.path.dirname(os.path.dirname(os.path.abspath(__file__)))
ENV = dict(os.environ, GOFLAGS="-mod=mod", GOPROXY="off", GOSUMDB="off", GOTOOLCHAIN="local")

def sh(cmd, cwd, timeout=900, env=ENV):
    p = subprocess.run(cmd, cwd=cwd, capture_output=True, timeout=timeout, env=env)
    return p.returncode, (p.stdout + p.stderr).decode("utf-8", "replace")

def main():
    a = sys.argv[1:]
    src, prop, name = a[0], a[1], a[2]
    checks = [prop]
    scale = "0.3"
    demo_runs = 3
    if "--checks" in a: checks = a[a.index("--checks") + 1].split(",")
    if "--scale" in a: scale = a[a.index("--scale") + 1]
    if "--demo-runs" in a: demo_runs = int(a[a.index("--demo-runs") + 1])
    wt = tempfile.mkdtemp(prefix="verif-seedwt-")
    shutil.rmtree(wt)
    subprocess.check_call(["git", "-C", "/repo", "worktree", "add", "-q", "--detach", wt, "HEAD"])
    rec = {"property": prop, "name": name, "repo_head": subprocess.check_output(["git", "-C", "/repo", "rev-parse", "--short", "HEAD"]).decode().strip(), "ran": []}
    def note(step, ok, detail=""):
        rec["ran"].append({"step": step, "ok": ok, "detail": detail[-400:]})
        print(("ok   " if ok else "FAIL ") + step + (" :: " + detail[-300:].replace("\n", " | ") if detail and not ok else ""))
    try:
        demo_is_test = os.path.exists(os.path.join(src, "demo_test.go"))
        def place_demo():
            if demo_is_test:
                shutil.copy(os.path.join(src, "demo_test.go"), os.path.join(wt, "zz_seed_demo_test.go"))
            else:
                shutil.copytree(os.path.join(src, "demo"), os.path.join(wt, "cmd", "zzseeddemo"), dirs_exist_ok=True)
        def run_demo():
            if demo_is_test:
                return sh(["go", "test", "-vet=off", "-count=1", "-run", "Seed|Demo|Test", "./"], wt)
            return sh(["go", "run", "./cmd/zzseeddemo"], wt)
        # demo passes without the change
        place_demo()
        rc, out = run_demo()
        note("demo passes on HEAD", rc == 0, out)
        rc, out = sh(["git", "apply", os.path.abspath(os.path.join(src, "patch.diff"))], wt)
        note("patch applies", rc == 0, out)
        rc, out = sh(["go", "build", "./..."], wt); note("go build", rc == 0, out)
        rc, out = sh(["go", "build", "-tags", "verif", "./..."], wt); note("go build -tags verif", rc == 0, out)
        fails = 0
        for i in range(demo_runs):
            rc, out = run_demo()
            if rc != 0: fails += 1
        note("demo fails with the change (%d of %d runs)" % (fails, demo_runs), fails > 0, out)
        # repository tests (without the demo)
        for f in glob.glob(os.path.join(wt, "zz_seed_demo_test.go")): os.remove(f)
        shutil.rmtree(os.path.join(wt, "cmd", "zzseeddemo"), ignore_errors=True)
        rc, out = sh(["go", "test", "-vet=off", "-count=1", "./..."], wt)
        note("repository tests pass with the change", rc == 0, out)
        confirmed = all(r["ok"] for r in rec["ran"])
        rec["confirmed"] = confirmed
        rec["checks"] = {}
        if confirmed:
            env = dict(ENV, VERIF_REPO=wt, VERIF_SCALE=scale)
            for pid in checks:
                t0 = time.time()
                p = subprocess.run([os.path.join(ROOT, "check"), pid, "--tier", "quick"], cwd=ROOT, env=env, capture_output=True)
                out = p.stdout.decode()
                sigs = [l.strip()[len("signature: "):] for l in out.splitlines() if l.strip().startswith("signature: ")]
                rec["checks"][pid] = {"rc": p.returncode, "caught": p.returncode == 1, "signatures": sigs[:5], "wall_s": round(time.time() - t0, 1), "scale": scale}
                print("check %s: rc=%d %s %s" % (pid, p.returncode, "CAUGHT" if p.returncode == 1 else "MISSED", "; ".join(sigs[:3])))
        dst = os.path.join(ROOT, "seeded", name)
        os.makedirs(dst, exist_ok=True)
        shutil.copy(os.path.join(src, "patch.diff"), dst)
        if demo_is_test: shutil.copy(os.path.join(src, "demo_test.go"), os.path.join(dst, "demo_test.go.txt"))
        else: shutil.copytree(os.path.join(src, "demo"), os.path.join(dst, "demo"), dirs_exist_ok=True)
        if os.path.exists(os.path.join(src, "README.md")): shutil.copy(os.path.join(src, "README.md"), dst)
        json.dump(rec, open(os.path.join(dst, "meta.json"), "w"), indent=1, ensure_ascii=False)
    finally:
        subprocess.call(["git", "-C", "/repo", "worktree", "remove", "--force", wt])
        import hashlib
        tag = hashlib.sha1(wt.encode()).hexdigest()[:8]
        for f in glob.glob(os.path.join(ROOT, "out", "bin", "*." + tag + ".test")): os.remove(f)
        shutil.rmtree(os.path.join(ROOT, "out", "modfile-" + tag), ignore_errors=True)

if __name__ == "__main__":
    main()
