#!/usr/bin/env python3
"""Sensitivity run: apply each patch of mutants/<ID>/*.patch (or seeded/<dir>/patch.diff with --seeded) to a scratch
copy of /repo, run the property's quick tier against it (VERIF_REPO) and report whether it exits 1.

  tools/selftest.py C12 [--scale 0.3] [--only 01]
  tools/selftest.py --seeded seeded/C03-a [--checks C03,C01]
"""
import glob, json, os, shutil, subprocess, sys, tempfile, time

ROOT = os.path.dirname(os.path.dirname(os.path.abspath(__file__)))

def run_against(patch, checks, scale, tier="quick"):
    tmp = tempfile.mkdtemp(prefix="verif-selftest-")
    repo = os.path.join(tmp, "repo")
    try:
        subprocess.check_call(["rsync", "-a", "--exclude", ".git", "/repo/", repo + "/"])
        r = subprocess.run(["patch", "-p1", "-s", "--fuzz=3", "--no-backup-if-mismatch", "-i", os.path.abspath(patch)], cwd=repo, capture_output=True)
        if r.returncode != 0:
            return {"patch": patch, "error": "patch does not apply: " + (r.stdout + r.stderr).decode()[-300:]}
        env = dict(os.environ, VERIF_REPO=repo, VERIF_SCALE=str(scale))
        b = subprocess.run(["go", "build", "./..."], cwd=repo, capture_output=True, env=dict(env, GOFLAGS="-mod=mod", GOPROXY="off"))
        if b.returncode != 0:
            return {"patch": patch, "error": "does not build: " + b.stderr.decode()[-300:]}
        res = {"patch": patch, "results": {}}
        for pid in checks:
            t0 = time.time()
            p = subprocess.run([os.path.join(ROOT, "check"), pid, "--tier", tier], cwd=ROOT, env=env, capture_output=True)
            out = p.stdout.decode()
            sigs = [l.strip()[len("signature: "):] for l in out.splitlines() if l.strip().startswith("signature: ")]
            res["results"][pid] = {"rc": p.returncode, "signatures": sigs[:6], "wall_s": round(time.time() - t0, 1)}
        return res
    finally:
        shutil.rmtree(tmp, ignore_errors=True)
        # scratch binaries / modfiles of this copy
        import hashlib
        tag = hashlib.sha1(repo.encode()).hexdigest()[:8]
        for f in glob.glob(os.path.join(ROOT, "out", "bin", "*." + tag + ".test")):
            os.remove(f)
        shutil.rmtree(os.path.join(ROOT, "out", "modfile-" + tag), ignore_errors=True)
        for d in glob.glob(os.path.join(ROOT, "out", "run", "*." + tag)) + glob.glob(os.path.join(ROOT, "out", "failures", "*." + tag)):
            shutil.rmtree(d, ignore_errors=True)

def main():
    args = sys.argv[1:]
    scale = 0.3
    if "--scale" in args:
        i = args.index("--scale"); scale = float(args[i + 1]); del args[i:i + 2]
    only = None
    if "--only" in args:
        i = args.index("--only"); only = args[i + 1]; del args[i:i + 2]
    if args and args[0] == "--seeded":
        d = args[1]
        meta = {}
        mp = os.path.join(d, "meta.json")
        if os.path.exists(mp):
            meta = json.load(open(mp))
        checks = [meta.get("property")] if meta.get("property") else []
        if "--checks" in args:
            checks = args[args.index("--checks") + 1].split(",")
        r = run_against(os.path.join(d, "patch.diff"), checks, scale)
        print(json.dumps(r, ensure_ascii=False, indent=1))
        return 0
    pid = args[0]
    patches = sorted(glob.glob(os.path.join(ROOT, "mutants", pid, "*.patch")))
    if only:
        patches = [p for p in patches if os.path.basename(p).startswith(only)]
    survived = 0
    for p in patches:
        r = run_against(p, [pid], scale)
        if "error" in r:
            print("%-50s ERROR %s" % (os.path.basename(p), r["error"]))
            continue
        rr = r["results"][pid]
        ok = rr["rc"] == 1
        survived += 0 if ok else 1
        print("%-50s %s rc=%d %.0fs %s" % (os.path.basename(p), "caught  " if ok else "SURVIVED", rr["rc"], rr["wall_s"], "; ".join(rr["signatures"][:3])))
    return 1 if survived else 0

if __name__ == "__main__":
    sys.exit(main())
