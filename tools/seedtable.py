#!/usr/bin/env python3
"""Regenerates the seeded-changes table of DESIGN.md (between the SEEDTABLE markers) from
seeded/*/meta.json (what the checks reported) and seeded/NOTES.json (what each change needs)."""
import json, os, re, sys

ROOT = os.path.dirname(os.path.dirname(os.path.abspath(__file__)))
SEEDED = os.path.join(ROOT, "seeded")
notes = json.load(open(os.path.join(SEEDED, "NOTES.json"), encoding="utf-8"))

rows = []
missing = []
for name in sorted(os.listdir(SEEDED)):
    d = os.path.join(SEEDED, name)
    mp = os.path.join(d, "meta.json")
    if not os.path.isfile(mp):
        continue
    meta = json.load(open(mp, encoding="utf-8"))
    n = notes.get(name)
    if n is None:
        missing.append(name)
        n = {"needs": "see README.md", "strengthened": ""}
    caught = []
    for pid, r in sorted(meta.get("checks", {}).items()):
        if r.get("caught"):
            sigs = r.get("signatures") or []
            s = ", ".join("`%s`" % x.replace("|", "\\|") for x in sigs[:2])
            caught.append("%s %s" % (pid, s) if s else pid)
        else:
            caught.append("%s: not caught" % pid)
    rows.append("| %s | %s | %s | %s |" % (name, n["needs"], "; ".join(caught) or "not run", n.get("strengthened") or "—"))

table = "\n".join(["| change | what it needs to manifest | caught by (first signatures) | strengthening the miss led to |", "|---|---|---|---|"] + rows)
p = os.path.join(ROOT, "DESIGN.md")
s = open(p, encoding="utf-8").read()
a, b = "<!-- SEEDTABLE:BEGIN -->", "<!-- SEEDTABLE:END -->"
if a not in s or b not in s:
    sys.exit("markers missing in DESIGN.md")
s = s[: s.index(a) + len(a)] + "\n" + table + "\n" + s[s.index(b):]
open(p, "w", encoding="utf-8").write(s)
print("rows", len(rows), "without notes:", missing)
