#!/usr/bin/env python3
"""Run the quick (or thorough) tier of every claimed check, sequentially, and summarise.
  tools/run_all.py [--tier quick] [--seeds 1,2,3] [--only C01,C03]"""
import json, os, subprocess, sys, time
ROOT = os.path.dirname(os.path.dirname(os.path.abspath(__file__)))
a = sys.argv[1:]
tier = a[a.index("--tier") + 1] if "--tier" in a else "quick"
seeds = a[a.index("--seeds") + 1].split(",") if "--seeds" in a else ["1"]
ids = open(os.path.join(ROOT, "checks.d", "READY.txt")).read().split()
if "--only" in a:
    ids = a[a.index("--only") + 1].split(",")
bad = 0
for seed in seeds:
    for pid in ids:
        t0 = time.time()
        p = subprocess.run([os.path.join(ROOT, "check"), pid, "--tier", tier], cwd=ROOT, env=dict(os.environ, VERIF_SEED=seed), capture_output=True)
        out = p.stdout.decode()
        last = [l for l in out.splitlines() if l.startswith("[" + pid)]
        print("seed=%s %s rc=%d %.0fs %s" % (seed, pid, p.returncode, time.time() - t0, last[-1] if last else ""), flush=True)
        if p.returncode != 0:
            bad += 1
            print("\n".join(l for l in out.splitlines() if l.startswith(("VIOLATION", "[infra]", "  signature")))[:1500], flush=True)
sys.exit(1 if bad else 0)
