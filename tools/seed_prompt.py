"""Prints the brief of a seeding sub-agent: tools/seed_prompt.py <ID> <round>. The agent sees only this text and its worktree /tmp/seed-<ID>-<round>."""
import json,sys
pid=sys.argv[1]; n=sys.argv[2] if len(sys.argv)>2 else '1'
props={json.loads(l)['id']:json.loads(l) for l in open('/verif/properties.jsonl')}
p=props[pid]
wt='/tmp/seed-%s-%s'%(pid,n)
import os
import re
prev=[]
if n!='1':
    for d in sorted(os.listdir('/verif/seeded')):
        m=re.match(r'(C\d\d)-[a-z0-9]+-(.*)',d)
        if m and m.group(1)==pid: prev.append(m.group(2).replace('-',' '))
prevtxt=('\nANOTHER ENGINEER ALREADY DELIVERED changes with these mechanisms for this property: '+'; '.join(prev)+'. Choose clearly DIFFERENT mechanisms and different places in the code (other files, other clauses of the property, other configurations or call orders).\n') if prev else ''
print(f"""You are a software engineer testing how good somebody else's verification of the Go library sealdice/dicescript is (a TRPG dice scripting language: PEG grammar compiled to bytecode, run on a stack VM). You do NOT see that verification and must not look for it: do not read anything under /verif or /root/.vp, and do not look at other /tmp/seed-* directories. Work ONLY inside your own git worktree of the library: {wt} (already created; it is a checkout of the library's current HEAD). Never touch /repo itself.

THE PROPERTY the verification claims to decide:
  Title: {p['title']}
  Statement: {p['statement']}
  Quantified over: {p['quantifier']['text']}
  Code it is anchored in: {json.dumps(p['anchors']['files'])}; mechanisms: {json.dumps(p['anchors']['mechanism'], ensure_ascii=False)}

{prevtxt}
YOUR TASK: produce TWO different, realistic changes to the library (two separate patches, different mechanisms / different places in the code) each of which BREAKS this property while (a) the library still compiles (`go build ./...` and `go vet -tags verif .` style builds with the build tag `verif` must also compile: do not break verif_hooks.go), and (b) the library's existing test suite still passes unedited (`cd {wt} && go test -vet=off -count=1 ./...`). Realistic means: the kind of slip a maintainer could make in a refactoring or an optimisation or a bug fix gone slightly wrong (an off-by-one, a dropped guard, a swapped argument, a cache that is not invalidated, a state not reset, a look-ahead that no longer mirrors its rule, a bound checked after use instead of before, ...), not a sabotage such as `if input == "magic"`. Prefer changes that need something specific to manifest — an unusual input, a multi-step sequence of operations on one VM, a particular configuration combination, two cooperating sites that each look fine alone, a particular interleaving — rather than ones that ordinary use exposes at once. Do not modify test files, verif_hooks.go or verif_hooks_off.go.

For EACH change deliver, in the directory {wt}-out/change1/ and {wt}-out/change2/ (create them):
  - patch.diff : `git diff` of the change against the worktree's HEAD (apply-able with `git apply`),
  - demo_test.go : a Go test (package dicescript, to be dropped into the library directory) or demo/main.go program that FAILS with the change applied and PASSES without it, demonstrating the property violation through the public API,
  - README.md : which clause of the property it breaks, what exactly it needs in order to manifest (input / sequence / configuration / interleaving), and the exact commands you ran with their outcome: build, existing tests passing with the change, demo failing with the change, demo passing without it.
Never use `git stash` (the stash is shared with other engineers' worktrees of this repository; use `git apply -R` or `git checkout -- .` instead). Between the two changes reset the worktree (`git -C {wt} checkout -- . && git -C {wt} clean -fd`) so that each patch is independent and against HEAD. Leave the worktree clean at the end (both patches only in the -out directory).

Environment: no network; use `export GOFLAGS=-mod=mod GOPROXY=off GOSUMDB=off GOTOOLCHAIN=local`. The machine is shared and busy: keep runs small. Your final message: a short summary of the two changes (one paragraph each) and confirmation of the four outcomes for each.""")
