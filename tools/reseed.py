#!/usr/bin/env python3
"""Re-run the checks against every seeded change and update seeded/*/meta.json ("checks").
  tools/reseed.py [--scale 0.3] [--only C04-a]   (checks: meta["run_checks"] or [meta["property"]])"""
import glob, json, os, sys
ROOT = os.path.dirname(os.path.dirname(os.path.abspath(__file__)))
sys.path.insert(0, os.path.join(ROOT, "tools"))
from selftest import run_against
a = sys.argv[1:]
scale = float(a[a.index("--scale") + 1]) if "--scale" in a else 0.3
only = a[a.index("--only") + 1] if "--only" in a else None
for d in sorted(glob.glob(os.path.join(ROOT, "seeded", "*"))):
    name = os.path.basename(d)
    if only and only not in name:
        continue
    mp = os.path.join(d, "meta.json")
    meta = json.load(open(mp))
    checks = meta.get("run_checks") or list((meta.get("checks") or {}).keys()) or [meta["property"]]
    r = run_against(os.path.join(d, "patch.diff"), checks, scale)
    if "error" in r:
        print(name, "ERROR", r["error"]); continue
    meta["checks"] = {pid: {"rc": v["rc"], "caught": v["rc"] == 1, "signatures": v["signatures"], "wall_s": v["wall_s"], "scale": scale} for pid, v in r["results"].items()}
    json.dump(meta, open(mp, "w"), indent=1, ensure_ascii=False)
    print(name, " ".join("%s:%s" % (p, "CAUGHT" if v["rc"] == 1 else "MISSED rc=%d" % v["rc"]) for p, v in r["results"].items()), flush=True)
