#!/usr/bin/env python3
"""Regenerates MANIFEST.json from checks_config.PROPS and the texts below."""
import json, os, sys
ROOT = os.path.dirname(os.path.abspath(__file__))
sys.path.insert(0, ROOT)
from checks_config import PROPS
from manifest_texts import TEXTS, HOOK_COMMITS

BASELINE_OFF = "cd /repo && go test -json -vet=off -count=1 -timeout 25m ./..."
ALL = ["C%02d" % i for i in range(1, 20)]
# only checks the lead has accepted are claimed (checks.d/READY.txt, one id per line)
READY = set(open(os.path.join(ROOT, "checks.d", "READY.txt")).read().split())
PROPS = {k: v for k, v in PROPS.items() if k in READY}

checks = []
for pid in ALL:
    if pid not in PROPS or pid not in TEXTS:
        continue
    t = TEXTS[pid]
    checks.append({
        "property_id": pid,
        "quick_cmd": "./check %s --tier quick" % pid,
        "thorough_cmd": "./check %s --tier thorough" % pid,
        "evidence_file": "evidence/%s.json" % pid,
        "replay_cmd_template": "./check %s --replay {path}" % pid,
        "engine": "rapid+gofuzz harness",
        "level_claimed": {"category": "exploration", "text": t["level"], "design_ref": t["design_ref"]},
        "level_note": t["note"],
        "technique": t["technique"],
    })
na = [{"property_id": pid, "reason": TEXTS.get(pid, {}).get("na", "check not built yet; planned in DESIGN.md §3 (property-based testing applies, nothing is claimed until the check exists and is silent on the unchanged tree)")}
      for pid in ALL if pid not in PROPS or pid not in TEXTS]
m = {
    "version": 1,
    "setup_cmd": "./check --setup",
    "hooks": {
        "guard": "verif",
        "enable": "go test -tags verif (the harness module replaces github.com/sealdice/dicescript by /repo)",
        "baseline_off_cmd": BASELINE_OFF,
        "source_commits": HOOK_COMMITS,
        "add_only": True,
    },
    "engines": [{
        "name": "rapid+gofuzz harness",
        "path": "harness/",
        "serves_properties": [c["property_id"] for c in checks],
        "kind_free_text": "Go test binaries (one package per property) driven by ./check: pgregory.net/rapid v1.3.0 generators and state machines, bounded exhaustive enumerators, Go native fuzzing in the thorough tier, porcupine as history oracle, Go race detector; sharded subprocesses, explicit oracles, shrunk failures saved as replay files",
    }],
    "checks": checks,
    "not_applicable": na,
    "notes": "All checks are property-based tests / fuzzers with explicit oracles (DESIGN.md). KNOWN_FINDINGS.txt lists open findings (suppressed by signature, probed every run) and fixed ones (documentation only). seeded/ holds confirmed property-breaking changes and which checks catch them.",
}
json.dump(m, open(os.path.join(ROOT, "MANIFEST.json"), "w"), indent=1, ensure_ascii=False)
print("MANIFEST.json: %d checks, %d not_applicable" % (len(checks), len(na)))
